"""Minimal stand-in for matplotlib, used only to import shapepy under the second
interpreter (python3-vt, 3.11) for the configuration axis of C13/C10; plotting itself is
checked (C20) with the real matplotlib under /venv."""
import types


class _Path:
    MOVETO, LINETO, CURVE3, CURVE4, CLOSEPOLY = 1, 2, 3, 4, 79

    def __init__(self, vertices, codes=None):
        self.vertices, self.codes = vertices, codes


path = types.SimpleNamespace(Path=_Path)
patches = types.SimpleNamespace(PathPatch=object)
figure = types.SimpleNamespace(Figure=object)
axes = types.SimpleNamespace(_axes=types.SimpleNamespace(Axes=object))
