def subplots(*a, **k):
    raise RuntimeError("matplotlib stub: no plotting under this interpreter")
