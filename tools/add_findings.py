#!/usr/bin/env python3
"""Offline helper (never run by a check): appends the violations printed by a check run
to known_findings.json after they were examined by hand and judged genuine defects.
usage: tools/add_findings.py <PROPERTY> <root_cause tag> <check output file> [filter substring]"""
import json, sys, os
prop, cause, path = sys.argv[1:4]
flt = sys.argv[4] if len(sys.argv) > 4 else ""
fn = os.path.join(os.path.dirname(os.path.dirname(os.path.abspath(__file__))), "known_findings.json")
data = json.load(open(fn)) if os.path.exists(fn) else {"findings": [], "fixed": []}
have = {(f["property"], f["case_id"]) for f in data["findings"]}
lines = open(path).read().splitlines()
n = 0
for i, l in enumerate(lines):
    if l.startswith("   case: "):
        cid = l[len("   case: "):]
        what = lines[i + 1].strip()[len("what: "):] if i + 1 < len(lines) else ""
        if flt and flt not in cid:
            continue
        if (prop, cid) in have:
            continue
        data["findings"].append({"property": prop, "case_id": cid, "what": what, "root_cause": cause, "status": "known"})
        have.add((prop, cid)); n += 1
json.dump(data, open(fn, "w"), indent=1)
print("added", n)
