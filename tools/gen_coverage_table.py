#!/usr/bin/env python3
"""Prints the markdown coverage table of DESIGN.md section 8.2 from the evidence files
(offline helper; the numbers are those measured by the last run of each check)."""
import json, glob, os
ROOT = os.path.dirname(os.path.dirname(os.path.abspath(__file__)))
print("| id | level | tier/seed | cases | evaluations | distinct non-trivial | states | transitions | known findings seen | exhaustive | wall |")
print("|---|---|---|---|---|---|---|---|---|---|---|")
for f in sorted(glob.glob(os.path.join(ROOT, "evidence", "C*.json"))):
    e = json.load(open(f))
    c = e["coverage"]
    print("| %s | %s | %s/%d | %d | %d | %d | %s | %s | %d | %s | %.0f s |" % (
        e["property_id"], e["level"], e["tier"], e["seed"], c.get("cases", 0), c["evaluations"], c["distinct_nontrivial"],
        c.get("states", "-"), c.get("transitions", "-"), c.get("known_findings_seen", 0), c.get("exhaustive"), e["wall_s"]))
