#!/usr/bin/env python3
"""Prints, for DESIGN.md section 8.2b, the enumeration rule of every check as the check
itself states it in its evidence (RULE constants of mc/props/cNN.py). Offline helper."""
import importlib, os, sys
ROOT = os.path.dirname(os.path.dirname(os.path.abspath(__file__)))
sys.path.insert(0, ROOT)
os.environ.setdefault("MPLBACKEND", "Agg")
for i in range(1, 21):
    m = importlib.import_module("mc.props.c%02d" % i)
    print("* **%s** (%s): %s" % (m.ID, m.LEVEL, " ".join(m.RULE.split())))
    a = getattr(m, "ASSUMPTIONS", [])
    if a:
        print("  *Assumes:* " + "; ".join(a) + ".")
