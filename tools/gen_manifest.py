#!/usr/bin/env python3
"""Regenerates MANIFEST.json from the table below (offline helper)."""
import json, os
ROOT = os.path.dirname(os.path.dirname(os.path.abspath(__file__)))
CHECKS = {
 "C01": ("model_checking", "2/C01",
   "bounded exhaustive program exploration on the real code + exact arrangement-face oracle",
   "Every operator expression of a finite, named alphabet (depth 1-3, all shape kinds, orientations, int/Fraction/float/mixed) is executed on the real library and the returned shape is compared with an exact reference model on one witness per face of the arrangement of the operands' supporting lines; together with the exact test that the result boundary lies on operand boundaries this decides membership for ALL points off the operand boundaries of each explored polygonal program. Bounded: coordinates and depth are those of the alphabets.",
   "Reference model mc/refgeo.py (exact Fraction arithmetic); curved operands judged on a grid with clearance; operands outside exact general position only in the listed degenerate tier."),
 "C05": ("model_checking", "2/C05",
   "bounded exhaustive program exploration on the real code; measure identities evaluated with the library's integrals, operands cross-checked against exact closed-form integrals",
   "For every operand pair of the finite alphabets (alphabet shapes and depth-1 operator results, all kinds/orientations/numeric types, exact general position) the transitions X|Y, X&Y, X-Y, Y-X, X^Y, ~X, ~Y are executed on the real library and the four identities are checked for the six moments of order <= 2, exactly for rational data and to rel 1e-5 otherwise.",
   "Exact reference integrals (mc/refgeo.py) for the cross-check; Whole/Empty counted as 0; bounded by the alphabets."),
 "C06": ("model_checking", "2/C06",
   "bounded exhaustive program exploration on the real code + exact structural validator and singleton laws",
   "Every result of the C01 expression families plus the singleton-law family (S|~S, S&~S, S-S, S^S, S^~S, ...) and the Empty/Whole tables for every alphabet shape of every kind is validated structurally with exact arithmetic (closed chains, no zero-length piece, no self-crossing, outer boundary/holes/components nesting, sorted subshapes, documented kind tables) and singletons are demanded by identity exactly when the reference region is empty/whole on every arrangement face.",
   "Isolated contact points between boundaries are tolerated (A ^ B of crossing shapes cannot be represented without them); reference model mc/refgeo.py."),
}
NOT_BUILT = {}
props = [json.loads(l) for l in open(os.path.join(ROOT, "properties.jsonl"))]
checks = []
na = []
for p in props:
    pid = p["id"]
    if pid in CHECKS:
        lvl, ref, tech, text, note = CHECKS[pid]
        checks.append({
            "property_id": pid,
            "quick_cmd": "./check %s --tier quick" % pid,
            "thorough_cmd": "./check %s --tier thorough" % pid,
            "evidence_file": "/verif/evidence/%s.json" % pid,
            "replay_cmd_template": "./check %s --replay {path}" % pid,
            "engine": "mc",
            "level_claimed": {"category": lvl, "text": text, "design_ref": "DESIGN.md section " + ref},
            "level_note": note,
            "technique": tech,
        })
    else:
        na.append({"property_id": pid, "reason": NOT_BUILT.get(pid, "check not built yet (work in progress; see DESIGN.md section 2/%s for the planned bounded exhaustive exploration)" % pid)})
man = {
 "version": 1,
 "setup_cmd": "/venv/bin/python -m compileall -q mc >/dev/null 2>&1; /venv/bin/python -c 'import sys; sys.path.insert(0, \"/verif\"); from mc import lib'",
 "hooks": {
   "guard": "SHAPEPY_VERIF",
   "enable": "no hooks are needed: the checks observe the library from outside (public attributes, sys.setprofile); SHAPEPY_VERIF=1 is exported by ./check but nothing in /repo reads it",
   "baseline_off_cmd": "cd /repo && /venv/bin/python -m pytest -ra -q -p no:cacheprovider --timeout=900 --continue-on-collection-errors",
   "source_commits": [],
   "add_only": True,
 },
 "engines": [{"name": "mc", "path": "/verif/mc", "serves_properties": sorted(CHECKS), "kind_free_text": "hand-written explicit-state / bounded exhaustive explorers over the real Python code (program BFS, history BFS, crash-point enumeration) with an exact reference model"}],
 "checks": checks,
 "not_applicable": na,
 "notes": "All checks: ./check <ID> --tier quick|thorough ; VERIF_SEED selects which disjoint slice of the large families the quick tier adds to its fixed core (never a random generator). Known findings: /verif/known_findings.json.",
}
json.dump(man, open(os.path.join(ROOT, "MANIFEST.json"), "w"), indent=1)
print("checks", len(checks), "not_applicable", len(na))
