#!/usr/bin/env python3
"""Regenerates MANIFEST.json from the table below (offline helper)."""
import json, os
ROOT = os.path.dirname(os.path.dirname(os.path.abspath(__file__)))
CHECKS = {
 "C01": ("model_checking", "2/C01",
   "bounded exhaustive program exploration on the real code + exact arrangement-face oracle",
   "Every operator expression of a finite, named alphabet (depth 1-3, all shape kinds, orientations, int/Fraction/float/mixed) is executed on the real library and the returned shape is compared with an exact reference model on one witness per face of the arrangement of the operands' supporting lines; together with the exact test that the result boundary lies on operand boundaries this decides membership for ALL points off the operand boundaries of each explored polygonal program. Bounded: coordinates and depth are those of the alphabets.",
   "Reference model mc/refgeo.py (exact Fraction arithmetic); curved operands judged on a grid with clearance; operands outside exact general position only in the listed degenerate tier."),
 "C05": ("model_checking", "2/C05",
   "bounded exhaustive program exploration on the real code; measure identities evaluated with the library's integrals, operands cross-checked against exact closed-form integrals",
   "For every operand pair of the finite alphabets (alphabet shapes and depth-1 operator results, all kinds/orientations/numeric types, exact general position) the transitions X|Y, X&Y, X-Y, Y-X, X^Y, ~X, ~Y are executed on the real library and the four identities are checked for the six moments of order <= 2, exactly for rational data and to rel 1e-5 otherwise.",
   "Exact reference integrals (mc/refgeo.py) for the cross-check; Whole/Empty counted as 0; bounded by the alphabets."),
 "C06": ("model_checking", "2/C06",
   "bounded exhaustive program exploration on the real code + exact structural validator and singleton laws",
   "Every result of the C01 expression families plus the singleton-law family (S|~S, S&~S, S-S, S^S, S^~S, ...) and the Empty/Whole tables for every alphabet shape of every kind is validated structurally with exact arithmetic (closed chains, no zero-length piece, no self-crossing, outer boundary/holes/components nesting, sorted subshapes, documented kind tables) and singletons are demanded by identity exactly when the reference region is empty/whole on every arrangement face.",
   "Isolated contact points between boundaries are tolerated (A ^ B of crossing shapes cannot be represented without them); reference model mc/refgeo.py."),
 "C02": ("exploration", "2/C02",
   "exhaustive evaluation of a finite shape x point alphabet on the real code against exact reference membership",
   "Every shape of the finite alphabets (all kinds, orientations, numeric types, degrees 1-3, composites, unbounded) is queried at every point of a systematic point alphabet (one witness per arrangement face, box lattice, vertices, edge points, normal offsets down to 1e-4*size on both sides of every edge/arc, far points) with `in`, contains_point(True/False) and `p in curve`; the reference is exact for polygons and adaptive for curves. 'All points' is a finite alphabet here: the implementation's answer is not provably constant on faces.",
   "Reference winding numbers in mc/refgeo.py; points nearer than 1e-4*size to a boundary are not judged."),
 "C03": ("exploration", "2/C03",
   "all ordered pairs of a finite shape alphabet on the real code against the exact subset relation (line-arrangement faces); curves split at exact contacts",
   "All ordered pairs (A, B) of the shape alphabet incl. Empty/Whole, composites and unbounded shapes, plus every boundary curve against every shape with both boundary flags; the polygonal oracle is exact and complete per pair; consequences A|B == A, A&B == B are checked on the real operators.",
   "Polygonal alphabets only (curved containment is exercised through C01/C12 tiers); reference in mc/refgeo.py."),
 "C04": ("exploration", "2/C04",
   "exhaustive shape families x exponent grid on the real code against exact closed-form boundary integrals",
   "All lattice triangles/quadrilaterals of a small grid, the polygon/composite alphabets and curved shapes of degree 2 and 3, in int/Fraction/float and both orientations, for all exponents a+b <= 4 (6 thorough): exact equality and rational type for rational polygons, 1e-12 for float polygons, 1e-10 where the library rule is nominally exact, quadrature tolerance otherwise.",
   "Exact polynomial integration in mc/refgeo.py."),
 "C13": ("exploration", "2/C13",
   "exhaustive rational alphabets x operations on the real code, object-graph walk for number types, exact crossing oracle; byte-identical dumps under Python 3.11 and 3.12",
   "Rational polygon alphabets (int, Fraction, mixed, a denominator ladder straddling 10^9) x operators, depth-2 programs, intersection, split, integrals, move/scale: every stored number is int or a well-formed Fraction, parameters/vertices/moments equal the exact values, results identical under the second interpreter.",
   "python3-vt 3.11.7 with stub matplotlib stands for Python 3.11; float(S) (a float sum) is not part of the rational claim."),
 "C14": ("exploration", "2/C14",
   "all ordered pairs of a closed-curve alphabet x all flag combinations on the real code against exact / subdivision reference crossings",
   "Every ordered pair of curves (polygons in three numeric types, shared/identical/reversed/rotated/collinear configurations, curved alphabet) x (equal_beziers, end_points) and A & B: tuple encoding, point identity, completeness for transversal contacts, parity, swap symmetry, None marker, flag filters.",
   "Tangential contacts are outside the alphabets; curved reference by box subdivision to 1e-11."),
}
NOT_BUILT = {}
props = [json.loads(l) for l in open(os.path.join(ROOT, "properties.jsonl"))]
checks = []
na = []
for p in props:
    pid = p["id"]
    if pid in CHECKS:
        lvl, ref, tech, text, note = CHECKS[pid]
        checks.append({
            "property_id": pid,
            "quick_cmd": "./check %s --tier quick" % pid,
            "thorough_cmd": "./check %s --tier thorough" % pid,
            "evidence_file": "/verif/evidence/%s.json" % pid,
            "replay_cmd_template": "./check %s --replay {path}" % pid,
            "engine": "mc",
            "level_claimed": {"category": lvl, "text": text, "design_ref": "DESIGN.md section " + ref},
            "level_note": note,
            "technique": tech,
        })
    else:
        na.append({"property_id": pid, "reason": NOT_BUILT.get(pid, "check not built yet (work in progress; see DESIGN.md section 2/%s for the planned bounded exhaustive exploration)" % pid)})
man = {
 "version": 1,
 "setup_cmd": "/venv/bin/python -m compileall -q mc >/dev/null 2>&1; /venv/bin/python -c 'import sys; sys.path.insert(0, \"/verif\"); from mc import lib'",
 "hooks": {
   "guard": "SHAPEPY_VERIF",
   "enable": "no hooks are needed: the checks observe the library from outside (public attributes, sys.setprofile); SHAPEPY_VERIF=1 is exported by ./check but nothing in /repo reads it",
   "baseline_off_cmd": "cd /repo && /venv/bin/python -m pytest -ra -q -p no:cacheprovider --timeout=900 --continue-on-collection-errors",
   "source_commits": [],
   "add_only": True,
 },
 "engines": [{"name": "mc", "path": "/verif/mc", "serves_properties": sorted(CHECKS), "kind_free_text": "hand-written explicit-state / bounded exhaustive explorers over the real Python code (program BFS, history BFS, crash-point enumeration) with an exact reference model"}],
 "checks": checks,
 "not_applicable": na,
 "notes": "All checks: ./check <ID> --tier quick|thorough ; VERIF_SEED selects which disjoint slice of the large families the quick tier adds to its fixed core (never a random generator). Known findings: /verif/known_findings.json.",
}
json.dump(man, open(os.path.join(ROOT, "MANIFEST.json"), "w"), indent=1)
print("checks", len(checks), "not_applicable", len(na))
