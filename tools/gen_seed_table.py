#!/venv/bin/python
"""Regenerates the table of DESIGN.md section 9 from seeded/*/meta.json (in place)."""
import glob, json, os, re

root = os.path.dirname(os.path.dirname(os.path.abspath(__file__)))
rows = []
for d in sorted(glob.glob(os.path.join(root, "seeded", "*", "meta.json"))):
    m = json.load(open(d))
    name = os.path.basename(os.path.dirname(d))
    esc = lambda s: str(s).replace("|", "\\|").replace("\n", " ")
    rows.append("| `seeded/%s` | %s | %s | %s | %s |" % (name, esc(m["change"]), esc(m["needs_to_manifest"]), ", ".join(m["caught_by_quick_checks"]), esc(m.get("strengthening", ""))))
p = os.path.join(root, "DESIGN.md")
s = open(p).read()
head = "| seed | change | needs, to manifest | caught by (quick tier) | strengthening |\n|---|---|---|---|---|\n"
i = s.index(head) + len(head)
j = i
lines = s[i:].split("\n")
k = 0
while k < len(lines) and lines[k].startswith("| `seeded/"):
    k += 1
rest = "\n".join(lines[k:])
open(p, "w").write(s[:i] + "\n".join(rows) + "\n" + rest)
print(len(rows), "rows")
