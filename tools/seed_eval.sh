#!/bin/bash
# tools/seed_eval.sh <seed dir containing patch.diff and demo.py> <check id> [more check ids...]
# 1. confirms in a scratch worktree that the 225 tests pass with the patch, that the demo fails with it and
#    passes without it; 2. runs the given quick checks against a scratch copy of /repo/src with the patch applied.
# Nothing is left behind; /repo is not modified.
set -u
SEED=$(realpath "$1"); shift
W=$(mktemp -d /tmp/seedeval.XXXXXX)
git -C /repo worktree add --detach "$W/wt" HEAD -q || exit 2
cd "$W/wt"
export PYTHONPATH="$W/wt/src" MPLBACKEND=Agg PYTHONDONTWRITEBYTECODE=1
timeout 600 /venv/bin/python "$SEED/demo.py" > "$W/demo_clean.out" 2>&1; DC=$?
if ! git apply "$SEED/patch.diff"; then echo "PATCH DOES NOT APPLY"; cd /; git -C /repo worktree remove --force "$W/wt"; rm -rf "$W"; exit 2; fi
timeout 600 /venv/bin/python "$SEED/demo.py" > "$W/demo_patched.out" 2>&1; DP=$?
if [ "${SKIP_TESTS:-0}" = 1 ]; then TS="skipped"; else
TS=$(timeout 1500 /venv/bin/python -m pytest -q -p no:cacheprovider --timeout=900 2>&1 | tail -1); fi
echo "demo on clean tree: exit $DC ; demo with patch: exit $DP ; tests with patch: $TS"
unset PYTHONPATH
for c in "$@"; do
  if SHAPEPY_SRC="$W/wt/src" VERIF_EVIDENCE_DIR="$W/ev" VERIF_REPLAY_DIR="$W/rp" timeout 3000 /verif/check "$c" --tier ${TIER:-quick} > "$W/$c.out" 2>&1; then rc=0; else rc=$?; fi
  echo "$c exit=$rc violations=$(grep -c '^VIOLATION' "$W/$c.out")  $(grep -m1 -A2 '^VIOLATION' "$W/$c.out" | tail -2 | tr '\n' ' ' | cut -c1-260)"
  [ $rc -ge 2 ] && tail -5 "$W/$c.out"
done
cd /
git -C /repo worktree remove --force "$W/wt"
rm -rf "$W"
