#!/bin/sh
# tools/mutant.sh '<python: s=s.replace(a,b)>' <file under src/shapepy> <check id>... 
# Applies a textual mutation to a scratch copy of /repo/src and runs the quick checks on it.
# usage: tools/mutant.sh <file> '<old>' '<new>' C01 C05 ...
set -e
FILE=$1; OLD=$2; NEW=$3; shift 3
D=$(mktemp -d /tmp/mut.XXXXXX)
cp -r /repo/src "$D/src"
python3 - "$D/src/shapepy/$FILE" "$OLD" "$NEW" <<'PY'
import sys
p, old, new = sys.argv[1:4]
s = open(p).read()
assert s.count(old) >= 1, "pattern not found"
open(p, "w").write(s.replace(old, new, 1))
PY
for c in "$@"; do
  if SHAPEPY_SRC="$D/src" VERIF_EVIDENCE_DIR="$D/ev" VERIF_REPLAY_DIR="$D/rp" /verif/check "$c" --tier ${TIER:-quick} > "$D/$c.out" 2>&1; then rc=0; else rc=$?; fi
  echo "$c exit=$rc violations=$(grep -c '^VIOLATION' "$D/$c.out" || true)  $(grep -m1 -A2 '^VIOLATION' "$D/$c.out" | tail -2 | tr '\n' ' ' | cut -c1-220)"
done
rm -rf "$D"
