#!/bin/sh
# tools/run_all.sh <tier> [ids...] : runs the checks one after the other, one summary line each (offline helper)
TIER=${1:-quick}; shift
IDS=${@:-C01 C02 C03 C04 C05 C06 C07 C08 C09 C10 C11 C12 C13 C14 C15 C16 C17 C18 C19 C20}
D=$(mktemp -d /tmp/runall.XXXXXX)
for c in $IDS; do
  ./check $c --tier $TIER > $D/$c.out 2>&1; rc=$?
  echo "$c rc=$rc $(grep -v '^KNOWN\|^   \|^VIOLATION\|Warning\|return total' $D/$c.out | tail -1)"
  grep -A2 '^VIOLATION' $D/$c.out | head -400
done
rm -rf $D
