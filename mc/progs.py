"""Program families (operand tuples) shared by the operator properties C01/C05/C06.

Every family is a deterministic list; the quick tier takes a fixed core plus the slice
`index % k == seed % k` of the larger families, the thorough tier takes everything."""
from itertools import permutations, product

from . import alphabets as al

OPS4 = ("|", "&", "-", "^")


def L(name):
    return ["L", name]


def p_shapes(variant="int", names=None, both=True):
    out = []
    for n in names or al.P_ORDER:
        out.append(L("P.%s#%s" % (n, variant)))
        if both:
            out.append(L("P.%s#%s@cw" % (n, variant)))
    return out


def pc_shapes(variant="int", names=None):
    return [["PC", n, variant] for n in (names or al.PC_ORDER)]


QUICK_P = ["sqA", "sqB", "triA", "bar", "inner", "L"]
QUICK_PC = ["hollow", "two", "xtwo"]
D2_LEAVES = ["sqA", "sqB", "triA", "bar", "dia", "L", "U"]


def pairs_a(tier):
    """(a) ordered pairs of P (both orientations) and PC shapes."""
    if tier == "quick":
        shapes = p_shapes(names=QUICK_P) + pc_shapes(names=QUICK_PC)
    else:
        shapes = p_shapes() + pc_shapes()
    return [(x, y) for x in shapes for y in shapes if x != y]


def pairs_tt(tier, seed, k=12):
    out = []
    idx = 0
    for i in range(len(al.TT_A)):
        for j in range(len(al.TT_B)):
            if tier == "thorough" or idx % k == seed % k:
                out.append((L("TA.%d#int" % i), L("TB.%d#int" % j)))
            idx += 1
    return out


def triples_d2(tier, seed, k=14):
    out = []
    idx = 0
    for x, y, z in permutations(D2_LEAVES, 3):
        if tier == "thorough" or idx % k == seed % k:
            out.append(tuple(L("P.%s#int" % n) for n in (x, y, z)))
        idx += 1
    return out


def d2_exprs(x, y, z, ops=OPS4):
    out = []
    for o1, o2 in product(ops, ops):
        out.append([o2, [o1, x, y], z])
        out.append([o1, x, [o2, y, z]])
    return out


def numeric_pairs(tier):
    """(d) numeric variants on 6 leaves."""
    names = ["sqA", "sqB", "triA", "bar", "inner", "L"]
    variants = ["frac", "float", "mixed", "fint"] if tier == "thorough" else ["frac", "float", "mixed"]
    out = []
    for v in variants:
        shapes = p_shapes(v, names, both=(tier == "thorough"))
        if tier == "quick":
            shapes = shapes[:4] + [L("P.inner#%s" % v), L("P.sqA#%s@cw" % v)]
        out += [(x, y) for x in shapes for y in shapes if x != y]
    # operands of different numeric type
    out += [
        (L("P.sqA#int"), L("P.triA#fint")),
        (L("P.sqB#fint"), L("P.bar#int")),
        (L("P.sqA#mixed"), L("P.sqB#int")),
        (L("P.sqA#half"), L("P.triA#fhalf")),
    ]
    return out


# --------------------------------------------------------------------------- degenerate tier
def V(verts):
    return ["V", [list(p) for p in verts]]


DEG_PAIRS = [
    # shared-edge triangles of tests/test_bool_infinite_intersect.py style and rhombi
    ("tri-shared-edge-1", V([(0, 0), (2, 0), (0, 2)]), V([(0, 0), (0, 2), (-2, 0)])),
    ("tri-shared-edge-2", V([(0, 0), (4, 0), (0, 4)]), V([(0, 0), (4, 0), (0, -4)])),
    ("tri-shared-edge-3", V([(0, 0), (3, 0), (0, 3)]), V([(3, 0), (3, 3), (0, 3)])),
    ("rhombi", V([(-1, 0), (0, -1), (1, 0), (0, 1)]), V([(0, 0), (1, -1), (2, 0), (1, 1)])),
    ("rhombi-2", V([(-2, 0), (0, -2), (2, 0), (0, 2)]), V([(-1, 0), (1, -2), (3, 0), (1, 2)])),
    ("nested-common-centre", V([(-2, -2), (2, -2), (2, 2), (-2, 2)]), V([(-1, -1), (1, -1), (1, 1), (-1, 1)])),
    ("vertex-on-edge-1", V([(0, 0), (4, 0), (4, 4), (0, 4)]), V([(2, 0), (6, 2), (2, 6)])),
    ("vertex-on-edge-2", V([(0, 0), (4, 0), (4, 4), (0, 4)]), V([(4, 2), (7, 1), (7, 5)])),
    ("vertex-on-edge-3", V([(0, 0), (6, 0), (0, 6)]), V([(3, 3), (8, 2), (5, 8)])),
    ("vertex-on-edge-4", V([(0, 0), (4, 0), (4, 4), (0, 4)]), V([(1, 1), (4, 2), (2, 3)])),
    ("vertex-on-vertex", V([(0, 0), (4, 0), (4, 4), (0, 4)]), V([(4, 4), (7, 3), (6, 8)])),
    ("edge-overlap-partial", V([(0, 0), (4, 0), (4, 4), (0, 4)]), V([(4, 1), (8, 1), (8, 3), (4, 3)])),
    ("edge-overlap-cross", V([(0, 0), (4, 0), (4, 4), (0, 4)]), V([(2, 0), (6, 0), (6, 2), (2, 2)])),
]


def law_exprs(s):
    """Singleton-law family for one shape expression s (operands equal or complementary:
    non-transversal by construction, judged in the DEG tier)."""
    ns = ["~", s]
    return [
        ["|", s, ns],
        ["&", s, ns],
        ["-", s, s],
        ["^", s, s],
        ["^", s, ns],
        ["|", s, s],
        ["&", s, s],
        ["-", s, ns],
        ["~", ns],
        ["|", ns, s],
        ["&", ns, s],
    ]


def singleton_rows(s):
    e, w = ["E"], ["W"]
    return [
        ["|", s, e], ["|", e, s], ["&", s, e], ["&", e, s], ["-", s, e], ["-", e, s], ["^", s, e], ["^", e, s],
        ["|", s, w], ["|", w, s], ["&", s, w], ["&", w, s], ["-", s, w], ["-", w, s], ["^", s, w], ["^", w, s],
        ["+", s, e], ["*", s, w], ["+", w, s], ["*", e, s],
    ]


SINGLETON_TABLE = [
    ["|", ["E"], ["E"]], ["|", ["E"], ["W"]], ["|", ["W"], ["E"]], ["|", ["W"], ["W"]],
    ["&", ["E"], ["E"]], ["&", ["E"], ["W"]], ["&", ["W"], ["E"]], ["&", ["W"], ["W"]],
    ["-", ["E"], ["E"]], ["-", ["E"], ["W"]], ["-", ["W"], ["E"]], ["-", ["W"], ["W"]],
    ["^", ["E"], ["E"]], ["^", ["E"], ["W"]], ["^", ["W"], ["E"]], ["^", ["W"], ["W"]],
    ["~", ["E"]], ["~", ["W"]], ["neg", ["E"]], ["neg", ["W"]],
]


def nested_exprs():
    """Rings nested through islands (a hole inside an island inside a hole ...)."""
    n1, n2, n3, n4, n5 = (L("N.N%d#int" % i) for i in range(1, 6))
    ring12 = ["-", n1, n2]
    ring34 = ["-", n3, n4]
    base = [
        ["|", ring12, ring34],
        ["|", ring34, ring12],
        ["-", n1, ["-", n2, n3]],
        ["-", n1, ["-", n2, ring34]],
        ["|", ["|", ring12, ring34], n5],
        ["-", ["-", n1, ["-", n2, n3]], n4],
        ["^", n1, ["^", n2, ["^", n3, n4]]],
        ["&", ring12, ["~", ring34]],
        ["|", ["~", n1], ring34],
        ["~", ["|", ring12, ring34]],
        ["~", ["~", ["|", ring12, ring34]]],
        ["-", n2, ["|", ring34, n5]],
    ]
    return base


def nested_laws():
    n1, n2, n3, n4, n5 = (L("N.N%d#int" % i) for i in range(1, 6))
    deep = ["|", ["-", n1, n2], ["-", n3, n4]]
    deeper = ["-", n1, ["-", n2, ["-", n3, n4]]]
    out = []
    for s in (deep, deeper):
        out += law_exprs(s)
    return out
