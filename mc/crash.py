"""Crash-point enumerator: delivers an interrupt at every internal call boundary of an
operation executed on the real code and checks the operands afterwards.

Pass 1 runs the operation under sys.setprofile, numbers every call / return / c_call /
c_return event whose frame is library code and records the fingerprint of the operands at
each event (epoch = maximal run of events with the same fingerprint and the same
active-handler context).  Pass 2 re-runs the operation on fresh operands and raises
InjectedInterrupt (a BaseException, like KeyboardInterrupt) at event k: for every k (full
mode) or for the first and last event of every epoch (reduced mode).  The reduction is
sound because unwinding executes no library code except inside a try body with a
`finally`/catch-all handler, and frames inside such bodies contribute their current line to
the epoch key (so the enumeration degrades to per-line inside them)."""
import ast
import os
import sys


class InjectedInterrupt(BaseException):
    pass


def protected_ranges(pkgdir):
    """{filename: [(first line, last line of a try body that has a finally clause or a
    handler able to catch a BaseException)]} computed from the sources at run time."""
    out = {}
    for fn in sorted(os.listdir(pkgdir)):
        if not fn.endswith(".py"):
            continue
        path = os.path.join(pkgdir, fn)
        tree = ast.parse(open(path).read())
        ranges = []
        for node in ast.walk(tree):
            if isinstance(node, ast.Try):
                catch_all = bool(node.finalbody)
                for h in node.handlers:
                    if h.type is None:
                        catch_all = True
                    else:
                        names = [n.id for n in ast.walk(h.type) if isinstance(n, ast.Name)]
                        if "BaseException" in names or "KeyboardInterrupt" in names:
                            catch_all = True
                if catch_all:
                    last = max(getattr(n, "end_lineno", node.lineno) for n in node.body)
                    ranges.append((node.body[0].lineno, last))
            if isinstance(node, ast.With):
                last = max(getattr(n, "end_lineno", node.lineno) for n in node.body)
                ranges.append((node.body[0].lineno, last))
        if ranges:
            out[path] = ranges
    return out


class Enumerator:
    def __init__(self, pkgdir, fingerprint, events=("call", "return", "c_call", "c_return")):
        self.pkgdir = os.path.realpath(pkgdir)
        self.fingerprint = fingerprint
        self.events = set(events)
        self.protected = protected_ranges(self.pkgdir)

    # -- context key of frames inside protected try bodies
    def _context(self, frame):
        if not self.protected:
            return ()
        key = []
        f = frame
        depth = 0
        while f is not None:
            rs = self.protected.get(f.f_code.co_filename)
            if rs:
                ln = f.f_lineno
                for a, b in rs:
                    if a <= ln <= b:
                        key.append((f.f_code.co_name, ln))
                        break
            f = f.f_back
            depth += 1
        return tuple(key)

    def record(self, make, op):
        """Pass 1.  make() -> operands (fresh); op(operands) runs the operation.
        Returns dict(n_events, epochs=[(first k, last k, key)], outcome)."""
        operands = make()
        state = {"k": 0, "epochs": [], "cur": None}
        pkg = self.pkgdir
        events = self.events
        fp = self.fingerprint
        ctx = self._context

        def prof(frame, event, arg):
            if event not in events:
                return
            if not frame.f_code.co_filename.startswith(pkg):
                return
            state["k"] += 1
            key = (fp(operands), ctx(frame))
            if key != state["cur"]:
                state["cur"] = key
                state["epochs"].append([state["k"], state["k"], key])
            else:
                state["epochs"][-1][1] = state["k"]

        outcome = "ok"
        sys.setprofile(prof)
        try:
            try:
                op(operands)
            except Exception as exc:  # noqa: BLE001 - the un-faulted run may legitimately raise
                outcome = "raise:" + type(exc).__name__
        finally:
            sys.setprofile(None)
        return {"n_events": state["k"], "epochs": [tuple(e) for e in state["epochs"]], "outcome": outcome, "operands": operands}

    def inject(self, make, op, k, expect_key=None, exc=InjectedInterrupt):
        """Pass 2: fresh operands, raise exc at event k.  Returns (operands, status, info):
        status in 'injected' (the exception came out), 'absorbed' (the call completed
        although the injection fired), 'missed' (event k never happened), 'diverged'."""
        operands = make()
        state = {"k": 0, "fired": False, "diverged": False}
        pkg = self.pkgdir
        events = self.events
        fp = self.fingerprint
        ctx = self._context

        def prof(frame, event, arg):
            if state["fired"] or event not in events:
                return
            if not frame.f_code.co_filename.startswith(pkg):
                return
            state["k"] += 1
            if state["k"] == k:
                state["fired"] = True
                if expect_key is not None and (fp(operands), ctx(frame)) != expect_key:
                    state["diverged"] = True
                raise exc("injected at event %d" % k)

        status, info = None, None
        sys.setprofile(prof)
        try:
            try:
                op(operands)
                status = "absorbed" if state["fired"] else "missed"
            except exc as e:  # the injected fault surfaced
                status, info = "injected", e
            except BaseException as e:  # noqa: BLE001 - surfaced as another type (C callers)
                status, info = ("injected" if state["fired"] else "natural"), e
        finally:
            sys.setprofile(None)
        if state["diverged"]:
            status = "diverged"
        return operands, status, info


def line_events(pkgdir, make, op):
    """Counts 'line' events inside the package for an operation (used for the finest
    granularity on small operations)."""
    pkg = os.path.realpath(pkgdir)
    n = [0]

    def tracer(frame, event, arg):
        if not frame.f_code.co_filename.startswith(pkg):
            return None
        if event == "line":
            n[0] += 1
        return tracer

    operands = make()
    sys.settrace(tracer)
    try:
        try:
            op(operands)
        except Exception:  # noqa: BLE001
            pass
    finally:
        sys.settrace(None)
    return n[0]


def inject_at_line(pkgdir, make, op, k, exc=InjectedInterrupt):
    pkg = os.path.realpath(pkgdir)
    st = {"n": 0, "fired": False}

    def tracer(frame, event, arg):
        if st["fired"] or not frame.f_code.co_filename.startswith(pkg):
            return None if st["fired"] else tracer
        if event == "line":
            st["n"] += 1
            if st["n"] == k:
                st["fired"] = True
                raise exc("injected at line event %d" % k)
        return tracer

    operands = make()
    status = None
    sys.settrace(tracer)
    try:
        try:
            op(operands)
            status = "absorbed" if st["fired"] else "missed"
        except BaseException:  # noqa: BLE001
            status = "injected" if st["fired"] else "natural"
    finally:
        sys.settrace(None)
    return operands, status, None


def forked_injections(enum, make, op, points, judge, exc=InjectedInterrupt, max_children=4):
    """Full-speed enumeration: the operation is executed ONCE under the profiler; at every
    selected event the process forks, the child raises the interrupt at exactly that point
    (so it continues from the very state the parent had reached), lets it propagate out of
    the operation, evaluates judge(operands, k) and reports; the parent goes on to the next
    event.  Equivalent to re-running the operation from scratch for every k (the library is
    deterministic), at the cost of one run plus one fork per crash point.
    points: None (every event) or a set of event numbers.
    Returns (n_events, {k: (status, fails)}, outcome of the un-faulted parent run)."""
    import json
    import tempfile

    operands = make()
    fd, path = tempfile.mkstemp(prefix="crash-", suffix=".jsonl")
    os.close(fd)
    st = {"k": 0, "child": None, "live": 0}
    pkg = enum.pkgdir
    events = enum.events

    def prof(frame, event, arg):
        if st["child"] is not None or event not in events:
            return
        if not frame.f_code.co_filename.startswith(pkg):
            return
        st["k"] += 1
        k = st["k"]
        if points is not None and not (points(k) if callable(points) else k in points):
            return
        while st["live"] >= max_children:
            os.wait()
            st["live"] -= 1
        pid = os.fork()
        if pid == 0:
            st["child"] = k
            raise exc("injected at event %d" % k)
        st["live"] += 1

    status = None
    outcome = "ok"
    sys.setprofile(prof)
    try:
        try:
            op(operands)
            status = "absorbed" if st["child"] is not None else "completed"
        except exc:
            status = "injected" if st["child"] is not None else "natural"
            outcome = "raise:" + exc.__name__
        except BaseException as e:  # noqa: BLE001
            status = "injected" if st["child"] is not None else "natural"
            outcome = "raise:" + type(e).__name__
    finally:
        sys.setprofile(None)
    if st["child"] is not None:
        # child: judge and report, never return
        code = 0
        try:
            fails = judge(operands, st["child"])
            with open(path, "a") as fh:
                fh.write(json.dumps([st["child"], status, fails]) + "\n")
        except BaseException as e:  # noqa: BLE001
            try:
                with open(path, "a") as fh:
                    fh.write(json.dumps([st["child"], "harness-error", [["harness", repr(e)]]]) + "\n")
            except BaseException:  # noqa: BLE001
                code = 3
        finally:
            os._exit(code)
    while st["live"] > 0:
        os.wait()
        st["live"] -= 1
    res = {}
    with open(path) as fh:
        for line in fh:
            k, stt, fails = json.loads(line)
            res[k] = (stt, [tuple(f) for f in fails])
    os.unlink(path)
    return st["k"], res, outcome
