"""History explorer: explicit-state breadth-first search over event histories executed on
the real code.  A state is the event history that reaches it; build(history) replays it on
fresh objects (live library objects do not copy faithfully and the histories are short);
canon(state) de-duplicates; the invariant is evaluated in every reached state."""
from collections import deque


def bfs(build, events, canon, invariant, depth, enabled=None, max_states=None):
    """build(history) -> state (or raises); events: list of JSON-able event names;
    canon(state) -> hashable; invariant(state, history) -> list of (tag, message);
    enabled(history, event) -> bool.
    Returns dict(states, transitions, max_depth, violations=[(history, tag, msg)], outcomes, capped)."""
    start = build([])
    seen = {canon(start)}
    frontier = deque([[]])
    violations = []
    for tag, msg in invariant(start, []):
        violations.append(([], tag, msg))
    transitions = 0
    max_depth = 0
    capped = False
    while frontier:
        hist = frontier.popleft()
        if len(hist) >= depth:
            continue
        for ev in events:
            if enabled is not None and not enabled(hist, ev):
                continue
            h2 = hist + [ev]
            state = build(h2)
            transitions += 1
            max_depth = max(max_depth, len(h2))
            bad = False
            for tag, msg in invariant(state, h2):
                violations.append((h2, tag, msg))
                bad = True
            if bad:
                # an error state: reported, not expanded (its successors would only repeat it)
                continue
            k = canon(state)
            if k not in seen:
                if max_states is not None and len(seen) >= max_states:
                    capped = True
                    continue
                seen.add(k)
                frontier.append(h2)
    return {
        "states": len(seen),
        "transitions": transitions,
        "max_depth": max_depth,
        "violations": violations,
        "capped": capped,
    }


def reachable_ids(obj, modules=("shapepy",)):
    """ids of all mutable library objects reachable from obj (object-graph walk through
    __dict__, tuples, lists, dicts; only instances of classes defined in the library)."""
    out = {}
    stack = [obj]
    seen = set()
    while stack:
        o = stack.pop()
        if id(o) in seen:
            continue
        seen.add(id(o))
        if isinstance(o, (tuple, list, set, frozenset)):
            stack.extend(o)
            continue
        if isinstance(o, dict):
            stack.extend(o.values())
            continue
        mod = type(o).__module__ or ""
        if mod.split(".")[0] in modules:
            name = type(o).__name__
            if name not in ("EmptyShape", "WholeShape"):
                out[id(o)] = name
            d = getattr(o, "__dict__", None)
            if d:
                stack.extend(d.values())
    return out
