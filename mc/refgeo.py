"""Reference model: boring, exact, independent of the library's algorithms.

Only *data* of library objects are read here (type, .subshapes, .jordans,
.segments[i].ctrlpoints[k]._x/_y); no library algorithm is ever called.
All arithmetic is done in fractions.Fraction; a float is taken at its exact rational value.
"""
from fractions import Fraction as F
from math import comb
import numbers

IN, OUT, ON = "IN", "OUT", "ON"


# --------------------------------------------------------------------------- numbers
def ex(v):
    """Exact rational value of a number (int, Fraction, float, numpy scalar)."""
    if isinstance(v, F):
        return v
    if isinstance(v, bool):
        return F(int(v))
    if isinstance(v, int):
        return F(v)
    if isinstance(v, float):
        return F(v)
    if isinstance(v, numbers.Integral):
        return F(int(v))
    if isinstance(v, numbers.Rational):
        return F(v.numerator, v.denominator)
    return F(float(v))


def typecode(v):
    if isinstance(v, bool):
        return "b"
    if isinstance(v, int):
        return "i"
    if isinstance(v, F):
        if type(v.numerator) is int and type(v.denominator) is int:
            return "F"
        return "F!" + type(v.numerator).__name__ + "/" + type(v.denominator).__name__
    if type(v) is float:
        return "f"
    return type(v).__module__.split(".")[0] + "." + type(v).__name__


def numrepr(v):
    if isinstance(v, (int, F)) and not isinstance(v, bool):
        try:
            return "%d/%d" % (v.numerator, v.denominator) if isinstance(v, F) else "%d" % v
        except TypeError:
            return "BAD(%r/%r)" % (v.numerator, v.denominator)
    try:
        return float(v).hex()
    except Exception:
        return repr(v)


def P(x, y):
    return (ex(x), ex(y))


def cross(o, a, b):
    return (a[0] - o[0]) * (b[1] - o[1]) - (a[1] - o[1]) * (b[0] - o[0])


def sgn(v):
    return (v > 0) - (v < 0)


# --------------------------------------------------------------------------- polygons
def area2(poly):
    n = len(poly)
    s = F(0)
    for i in range(n):
        x0, y0 = poly[i]
        x1, y1 = poly[(i + 1) % n]
        s += x0 * y1 - x1 * y0
    return s


def on_segment(p, a, b):
    if cross(a, b, p) != 0:
        return False
    return (
        min(a[0], b[0]) <= p[0] <= max(a[0], b[0])
        and min(a[1], b[1]) <= p[1] <= max(a[1], b[1])
    )


def winding_poly(poly, p):
    """Winding number of closed polygon about p (exact); ON if p on the polygon."""
    wn = 0
    n = len(poly)
    px, py = p
    for i in range(n):
        a = poly[i]
        b = poly[(i + 1) % n]
        if on_segment(p, a, b):
            return ON
        if a[1] <= py:
            if b[1] > py and cross(a, b, p) > 0:
                wn += 1
        else:
            if b[1] <= py and cross(a, b, p) < 0:
                wn -= 1
    return wn


def seg_seg(a, b, c, d):
    """Intersection of closed segments ab and cd.

    Returns None, ('pt', t, u, point) with a+t(b-a) = c+u(d-c), or
    ('overlap', (t0,t1)) for collinear segments sharing more than a point
    (a single shared point of collinear segments is returned as 'pt').
    """
    r = (b[0] - a[0], b[1] - a[1])
    s = (d[0] - c[0], d[1] - c[1])
    den = r[0] * s[1] - r[1] * s[0]
    qp = (c[0] - a[0], c[1] - a[1])
    if den != 0:
        t = (qp[0] * s[1] - qp[1] * s[0]) / den
        u = (qp[0] * r[1] - qp[1] * r[0]) / den
        if 0 <= t <= 1 and 0 <= u <= 1:
            return ("pt", t, u, (a[0] + t * r[0], a[1] + t * r[1]))
        return None
    if qp[0] * r[1] - qp[1] * r[0] != 0:
        return None
    rr = r[0] * r[0] + r[1] * r[1]
    if rr == 0:
        return None
    t0 = (qp[0] * r[0] + qp[1] * r[1]) / rr
    t1 = ((d[0] - a[0]) * r[0] + (d[1] - a[1]) * r[1]) / rr
    lo, hi = min(t0, t1), max(t0, t1)
    lo, hi = max(lo, F(0)), min(hi, F(1))
    if lo > hi:
        return None
    if lo == hi:
        pt = (a[0] + lo * r[0], a[1] + lo * r[1])
        ss = s[0] * s[0] + s[1] * s[1]
        u = ((pt[0] - c[0]) * s[0] + (pt[1] - c[1]) * s[1]) / ss
        return ("pt", lo, u, pt)
    return ("overlap", (lo, hi))


def polygon_is_simple(poly):
    n = len(poly)
    if n < 3:
        return False
    for i in range(n):
        if poly[i] == poly[(i + 1) % n]:
            return False
    for i in range(n):
        a, b = poly[i], poly[(i + 1) % n]
        for j in range(i + 1, n):
            c, d = poly[j], poly[(j + 1) % n]
            r = seg_seg(a, b, c, d)
            if r is None:
                continue
            if r[0] == "overlap":
                return False
            adjacent = j == i + 1 or (i == 0 and j == n - 1)
            if adjacent:
                # may only share the common vertex
                common = b if j == i + 1 else a
                if r[3] != common:
                    return False
            else:
                return False
    return area2(poly) != 0


def _ang_key(d):
    """Sort key equivalent to the angle of direction d in [0, 2pi) (exact)."""
    x, y = d
    half = 0 if (y > 0 or (y == 0 and x > 0)) else 1
    return half, x, y


def _ang_cmp(d1, d2):
    h1, h2 = _ang_key(d1)[0], _ang_key(d2)[0]
    if h1 != h2:
        return -1 if h1 < h2 else 1
    c = d1[0] * d2[1] - d1[1] * d2[0]
    return -1 if c > 0 else (1 if c < 0 else 0)


def passes_interleave(pa, pb):
    """pa = (a1, a2), pb = (b1, b2): direction pairs of two passes of a curve through the
    same point.  True iff the passes cross there (directions alternate around the point);
    'overlap' if two directions coincide."""
    import functools

    items = [(pa[0], 0), (pa[1], 0), (pb[0], 1), (pb[1], 1)]
    for i in range(4):
        for j in range(i + 1, 4):
            if _ang_cmp(items[i][0], items[j][0]) == 0:
                return "overlap"
    items.sort(key=functools.cmp_to_key(lambda u, v: _ang_cmp(u[0], v[0])))
    owners = [o for _, o in items]
    return owners in ([0, 1, 0, 1], [1, 0, 1, 0])


def polygon_self_crossing(poly):
    """None if the closed polygon does not cross itself (isolated self-contacts, where the
    curve touches itself without crossing, are allowed), else a description."""
    n = len(poly)
    if n < 3:
        return "fewer than 3 vertices"
    for i in range(n):
        if poly[i] == poly[(i + 1) % n]:
            return "zero-length edge at %s" % (poly[i],)
    contacts = set()
    for i in range(n):
        a, b = poly[i], poly[(i + 1) % n]
        for j in range(i + 1, n):
            c, d = poly[j], poly[(j + 1) % n]
            r = seg_seg(a, b, c, d)
            if r is None:
                continue
            if r[0] == "overlap":
                return "edges %d and %d overlap" % (i, j)
            adjacent = j == i + 1 or (i == 0 and j == n - 1)
            if adjacent:
                common = b if j == i + 1 else a
                if r[3] == common:
                    continue
            if 0 < r[1] < 1 and 0 < r[2] < 1:
                return "edges %d and %d cross at (%s, %s)" % (i, j, float(r[3][0]), float(r[3][1]))
            contacts.add(r[3])
    for p in contacts:
        passes = []
        for k in range(n):
            if poly[k] == p:
                q0, q1 = poly[k - 1], poly[(k + 1) % n]
                passes.append(((q0[0] - p[0], q0[1] - p[1]), (q1[0] - p[0], q1[1] - p[1])))
            else:
                a, b = poly[k], poly[(k + 1) % n]
                if b != p and on_segment(p, a, b):
                    passes.append(((a[0] - p[0], a[1] - p[1]), (b[0] - p[0], b[1] - p[1])))
        for i in range(len(passes)):
            for j in range(i + 1, len(passes)):
                r = passes_interleave(passes[i], passes[j])
                if r == "overlap":
                    return "boundary runs twice along the same ray at (%s, %s)" % (float(p[0]), float(p[1]))
                if r:
                    return "boundary crosses itself at (%s, %s)" % (float(p[0]), float(p[1]))
    return None


def canon_cycle(verts):
    """Canonical form of a closed polygonal cycle: no repeated / collinear vertices,
    rotated to start at the lexicographically smallest vertex; orientation kept."""
    vs = [tuple(v) for v in verts]
    changed = True
    while changed and len(vs) >= 3:
        changed = False
        n = len(vs)
        for i in range(n):
            a, b, c = vs[i - 1], vs[i], vs[(i + 1) % n]
            if b == c or b == a:
                vs.pop(i)
                changed = True
                break
            if cross(a, b, c) == 0:
                # b is collinear with neighbours: remove if between (not a spike)
                dot = (b[0] - a[0]) * (c[0] - b[0]) + (b[1] - a[1]) * (c[1] - b[1])
                if dot > 0:
                    vs.pop(i)
                    changed = True
                    break
    k = min(range(len(vs)), key=lambda i: vs[i])
    return tuple(vs[k:] + vs[:k])


# --------------------------------------------------------------------------- Bezier
def bez_eval(ctrl, t):
    pts = [tuple(p) for p in ctrl]
    t = ex(t)
    while len(pts) > 1:
        pts = [
            (
                (1 - t) * pts[i][0] + t * pts[i + 1][0],
                (1 - t) * pts[i][1] + t * pts[i + 1][1],
            )
            for i in range(len(pts) - 1)
        ]
    return pts[0]


def bez_split(ctrl, t):
    pts = [tuple(p) for p in ctrl]
    t = ex(t)
    left, right = [pts[0]], [pts[-1]]
    while len(pts) > 1:
        pts = [
            (
                (1 - t) * pts[i][0] + t * pts[i + 1][0],
                (1 - t) * pts[i][1] + t * pts[i + 1][1],
            )
            for i in range(len(pts) - 1)
        ]
        left.append(pts[0])
        right.append(pts[-1])
    return tuple(left), tuple(reversed(right))


def bez_sub(ctrl, t0, t1):
    """Control points of the restriction of the curve to [t0, t1]."""
    t0, t1 = ex(t0), ex(t1)
    if t0 == 0:
        part = ctrl
    else:
        part = bez_split(ctrl, t0)[1]
    if t1 == 1:
        return tuple(part)
    return bez_split(part, (t1 - t0) / (1 - t0))[0]


def bez_deriv(ctrl):
    n = len(ctrl) - 1
    if n == 0:
        return ((F(0), F(0)),)
    return tuple(
        (n * (ctrl[i + 1][0] - ctrl[i][0]), n * (ctrl[i + 1][1] - ctrl[i][1]))
        for i in range(n)
    )


def bernstein_to_power(vals):
    """Coefficients c_k of sum_k c_k t^k for Bernstein coefficients vals."""
    n = len(vals) - 1
    out = []
    for k in range(n + 1):
        s = F(0)
        for i in range(k + 1):
            s += (-1) ** (k - i) * comb(k, i) * vals[i]
        out.append(comb(n, k) * s)
    return out


def pmul(a, b):
    out = [F(0)] * (len(a) + len(b) - 1)
    for i, x in enumerate(a):
        if x == 0:
            continue
        for j, y in enumerate(b):
            out[i + j] += x * y
    return out


def ppow(a, k):
    out = [F(1)]
    for _ in range(k):
        out = pmul(out, a)
    return out


def pint01(a):
    return sum((c / (i + 1) for i, c in enumerate(a)), F(0))


def seg_moment(ctrl, a, b):
    """int over segment of x^(a+1) y^b dy / (a+1)   (exact)"""
    xs = bernstein_to_power([p[0] for p in ctrl])
    ys = bernstein_to_power([p[1] for p in ctrl])
    dy = [k * c for k, c in enumerate(ys)][1:] or [F(0)]
    integrand = pmul(pmul(ppow(xs, a + 1), ppow(ys, b)), dy)
    return pint01(integrand) / (a + 1)


def bbox(ctrl):
    xs = [p[0] for p in ctrl]
    ys = [p[1] for p in ctrl]
    return min(xs), min(ys), max(xs), max(ys)


def bbox_dist2(p, box):
    x0, y0, x1, y1 = box
    dx = max(x0 - p[0], 0, p[0] - x1)
    dy = max(y0 - p[1], 0, p[1] - y1)
    return dx * dx + dy * dy


def in_bbox(p, box):
    return box[0] <= p[0] <= box[2] and box[1] <= p[1] <= box[3]


def _round_ctrl(ctrl, bits=80):
    """Keeps denominators bounded during deep subdivision (used for curved data only,
    error far below every tolerance used)."""
    q = 1 << bits
    return tuple((F(round(x * q), q), F(round(y * q), q)) for x, y in ctrl)


def curve_chords(segs, p, eps):
    """Replaces every Bezier piece by chords that are homotopic to it in the plane
    minus p (p outside the control box of each replaced piece).  Returns the vertex
    list of the resulting closed polygon, or ON if some point of the curve is within
    eps of p (box diameter criterion)."""
    verts = []
    eps2 = eps * eps
    for ctrl in segs:
        if len(ctrl) == 2:
            verts.append(ctrl[0])
            continue
        stack = [tuple(ctrl)]
        while stack:
            c = stack.pop()
            box = bbox(c)
            if not in_bbox(p, box):
                verts.append(c[0])
                continue
            diam2 = (box[2] - box[0]) ** 2 + (box[3] - box[1]) ** 2
            if diam2 < eps2:
                return ON
            l, r = bez_split(_round_ctrl(c), F(1, 2))
            stack.append(r)
            stack.append(l)
    return verts


def point_near_curve(p, segs, eps):
    """True iff dist(p, curve) <= eps (decided up to a factor: True whenever
    dist <= eps, False whenever dist > 1.5 eps)."""
    eps = ex(eps)
    e2 = eps * eps
    for ctrl in segs:
        if len(ctrl) == 2:
            if seg_dist2(p, ctrl[0], ctrl[1]) <= e2:
                return True
            continue
        stack = [tuple(ctrl)]
        while stack:
            c = stack.pop()
            box = bbox(c)
            if bbox_dist2(p, box) > e2:
                continue
            diam2 = (box[2] - box[0]) ** 2 + (box[3] - box[1]) ** 2
            if diam2 * 4 <= e2:
                return True
            l, r = bez_split(_round_ctrl(c), F(1, 2))
            stack.append(r)
            stack.append(l)
    return False


def seg_dist2(p, a, b):
    r = (b[0] - a[0], b[1] - a[1])
    rr = r[0] * r[0] + r[1] * r[1]
    if rr == 0:
        t = F(0)
    else:
        t = ((p[0] - a[0]) * r[0] + (p[1] - a[1]) * r[1]) / rr
        t = max(F(0), min(F(1), t))
    q = (a[0] + t * r[0], a[1] + t * r[1])
    return (p[0] - q[0]) ** 2 + (p[1] - q[1]) ** 2


def bez_bez_crossings(c1, c2, tol=F(1, 10**11), maxdepth=60):
    """Crossings of two Bezier pieces by recursive box subdivision.
    Returns list of (t, u) cluster representatives (Fractions). Exact for two lines."""
    if len(c1) == 2 and len(c2) == 2:
        r = seg_seg(c1[0], c1[1], c2[0], c2[1])
        if r is None:
            return []
        if r[0] == "overlap":
            return [("overlap",) + r[1]]
        return [(r[1], r[2])]
    out = []
    stack = [(tuple(c1), F(0), F(1), tuple(c2), F(0), F(1), 0)]
    while stack:
        a, a0, a1, b, b0, b1, d = stack.pop()
        ba, bb = bbox(a), bbox(b)
        if ba[2] < bb[0] or bb[2] < ba[0] or ba[3] < bb[1] or bb[3] < ba[1]:
            continue
        da = max(ba[2] - ba[0], ba[3] - ba[1])
        db = max(bb[2] - bb[0], bb[3] - bb[1])
        if (da <= tol and db <= tol) or d >= maxdepth:
            out.append(((a0 + a1) / 2, (b0 + b1) / 2))
            continue
        if da >= db and len(a) > 1:
            l, r = bez_split(_round_ctrl(a), F(1, 2))
            m = (a0 + a1) / 2
            stack.append((l, a0, m, b, b0, b1, d + 1))
            stack.append((r, m, a1, b, b0, b1, d + 1))
        else:
            l, r = bez_split(_round_ctrl(b), F(1, 2))
            m = (b0 + b1) / 2
            stack.append((a, a0, a1, l, b0, m, d + 1))
            stack.append((a, a0, a1, r, m, b1, d + 1))
    # cluster
    clusters = []
    for t, u in sorted(out):
        for cl in clusters:
            if abs(cl[0] - t) < F(1, 10**6) and abs(cl[1] - u) < F(1, 10**6):
                break
        else:
            clusters.append((t, u))
    return clusters


# --------------------------------------------------------------------------- curves / regions
class RCurve:
    """Closed piecewise Bezier curve with exact control points."""

    def __init__(self, segs):
        self.segs = tuple(tuple((ex(x), ex(y)) for x, y in seg) for seg in segs)
        self.is_poly = all(len(s) == 2 for s in self.segs)
        self._area = None

    @property
    def poly(self):
        return [s[0] for s in self.segs]

    @property
    def ctrl_hull_poly(self):
        out = []
        for s in self.segs:
            out.extend(s[:-1])
        return out

    def area(self):
        if self._area is None:
            self._area = self.moment(0, 0)
        return self._area

    def moment(self, a, b):
        return sum((seg_moment(s, a, b) for s in self.segs), F(0))

    def size(self):
        xs = [p[0] for s in self.segs for p in s]
        ys = [p[1] for s in self.segs for p in s]
        return max(max(xs) - min(xs), max(ys) - min(ys))

    def box(self):
        xs = [p[0] for s in self.segs for p in s]
        ys = [p[1] for s in self.segs for p in s]
        return min(xs), min(ys), max(xs), max(ys)

    def closed_ok(self):
        n = len(self.segs)
        return all(self.segs[i][-1] == self.segs[(i + 1) % n][0] for i in range(n))

    def winding(self, p, eps=None):
        """Winding number about p, or ON.  Polygons: exact.  Curved: ON when a piece of
        the curve within eps (default 1e-9*size) cannot be separated from p."""
        if self.is_poly:
            return winding_poly(self.poly, p)
        if eps is None:
            eps = self.size() / 10**9
        verts = curve_chords(self.segs, p, ex(eps))
        if verts is ON:
            return ON
        # drop consecutive duplicates
        vs = [v for i, v in enumerate(verts) if v != verts[i - 1]]
        return winding_poly(vs, p)

    def near(self, p, eps):
        return point_near_curve(p, self.segs, eps)

    def image(self, fn):
        return RCurve([[fn(p) for p in s] for s in self.segs])

    def reversed(self):
        return RCurve([tuple(reversed(s)) for s in reversed(self.segs)])


class Region:
    """kind: 'empty' | 'whole' | 'simple' (curve) | 'and' | 'or' | 'not' (children)"""

    def __init__(self, kind, curve=None, children=()):
        self.kind = kind
        self.curve = curve
        self.children = tuple(children)

    # -- membership
    def contains(self, p, eps=None):
        k = self.kind
        if k == "empty":
            return OUT
        if k == "whole":
            return IN
        if k == "simple":
            w = self.curve.winding(p, eps)
            if w is ON:
                return ON
            if self.curve.area() > 0:
                return IN if w == 1 else OUT
            return IN if w == 0 else OUT
        if k == "not":
            r = self.children[0].contains(p, eps)
            return {IN: OUT, OUT: IN, ON: ON}[r]
        res = [c.contains(p, eps) for c in self.children]
        if k == "and":
            if OUT in res:
                return OUT
            return ON if ON in res else IN
        if k == "or":
            if IN in res:
                return IN
            return ON if ON in res else OUT
        raise ValueError(k)

    def curves(self):
        if self.kind == "simple":
            return [self.curve]
        out = []
        for c in self.children:
            out.extend(c.curves())
        return out

    def boundary_moment(self, a, b):
        """Sum of the boundary integrals: the true integral for a bounded valid shape,
        minus the integral over the bounded complement for an unbounded one."""
        return sum((c.moment(a, b) for c in self.curves()), F(0))

    def is_polygonal(self):
        return all(c.is_poly for c in self.curves())

    def image(self, fn):
        if self.kind == "simple":
            return Region("simple", self.curve.image(fn))
        return Region(self.kind, None, [c.image(fn) for c in self.children])

    def near_boundary(self, p, eps):
        return any(c.near(p, eps) for c in self.curves())


EMPTY = Region("empty")
WHOLE = Region("whole")


def r_not(r):
    if r.kind == "empty":
        return WHOLE
    if r.kind == "whole":
        return EMPTY
    if r.kind == "not":
        return r.children[0]
    return Region("not", None, [r])


def r_or(a, b):
    return Region("or", None, [a, b])


def r_and(a, b):
    return Region("and", None, [a, b])


def r_sub(a, b):
    return r_and(a, r_not(b))


def r_xor(a, b):
    return r_or(r_sub(a, b), r_sub(b, a))


MODEL_OPS = {
    "|": r_or,
    "+": r_or,
    "&": r_and,
    "*": r_and,
    "-": r_sub,
    "^": r_xor,
}


# --------------------------------------------------------------------------- reading library objects
def point_xy(pt):
    return (ex(pt._x), ex(pt._y))


def jordan_segs(jordan):
    return [[point_xy(p) for p in seg.ctrlpoints] for seg in jordan.segments]


def jordan_curve(jordan):
    return RCurve(jordan_segs(jordan))


def kind_of(shape):
    return type(shape).__name__


def interpret(shape):
    """Reference region denoted by a library object, by the documented semantics."""
    k = kind_of(shape)
    if k == "EmptyShape":
        return EMPTY
    if k == "WholeShape":
        return WHOLE
    if k == "SimpleShape":
        return Region("simple", jordan_curve(shape.jordans[0]))
    if k == "ConnectedShape":
        return Region("and", None, [interpret(s) for s in shape.subshapes])
    if k == "DisjointShape":
        return Region("or", None, [interpret(s) for s in shape.subshapes])
    raise TypeError("not a shape: %r" % (shape,))


def rep_sig(obj, with_cache=True):
    """Full representation signature (identity-free): every field the library reads."""
    k = kind_of(obj)
    if k in ("EmptyShape", "WholeShape"):
        return (k,)
    if k == "JordanCurve":
        ids = {}
        segs = []
        for seg in obj.segments:
            pts = []
            for p in seg.ctrlpoints:
                idx = ids.setdefault(id(p), len(ids))
                pts.append(
                    (idx, typecode(p._x), numrepr(p._x), typecode(p._y), numrepr(p._y))
                )
            segs.append(tuple(pts))
        cache = getattr(obj, "_JordanCurve__lenght", "absent") if with_cache else None
        if isinstance(cache, float):
            cache = cache.hex()
        elif cache is not None and cache != "absent":
            cache = (typecode(cache), numrepr(cache))
        return ("J", tuple(segs), cache)
    if k == "SimpleShape":
        return ("S", rep_sig(obj.jordans[0], with_cache))
    if k == "ConnectedShape":
        return ("C", tuple(rep_sig(s, with_cache) for s in obj.subshapes))
    if k == "DisjointShape":
        return ("D", tuple(rep_sig(s, with_cache) for s in obj.subshapes))
    if k == "PlanarCurve":
        return (
            "PC",
            tuple(
                (typecode(p._x), numrepr(p._x), typecode(p._y), numrepr(p._y))
                for p in obj.ctrlpoints
            ),
        )
    if k == "Point2D":
        return ("P", typecode(obj._x), numrepr(obj._x), typecode(obj._y), numrepr(obj._y))
    raise TypeError("rep_sig: %r" % (obj,))


def geom_sig(obj):
    """Like rep_sig but without caches, junction identity and numeric type: the exact
    geometry of the representation (segment list with exact coordinates)."""
    k = kind_of(obj)
    if k in ("EmptyShape", "WholeShape"):
        return (k,)
    if k == "JordanCurve":
        return ("J", tuple(tuple(point_xy(p) for p in s.ctrlpoints) for s in obj.segments))
    if k == "SimpleShape":
        return ("S", geom_sig(obj.jordans[0]))
    if k in ("ConnectedShape", "DisjointShape"):
        return (k[0], tuple(geom_sig(s) for s in obj.subshapes))
    raise TypeError(k)


def all_jordans(shape):
    k = kind_of(shape)
    if k in ("EmptyShape", "WholeShape"):
        return []
    return list(shape.jordans)


def region_sig(obj):
    """Representation-independent canonical form of a *polygonal* region: the sorted set
    of canonical oriented boundary cycles.  For valid shapes (boundaries pairwise
    disjoint) two objects denote the same region iff their region_sig are equal."""
    k = kind_of(obj)
    if k == "EmptyShape":
        return ("EMPTY",)
    if k == "WholeShape":
        return ("WHOLE",)
    if k == "JordanCurve":
        c = jordan_curve(obj)
        if not c.is_poly:
            return ("curved", curved_canon(c))
        return ("cycle", canon_cycle(c.poly))
    cycles = []
    for j in all_jordans(obj):
        c = jordan_curve(j)
        if c.is_poly:
            cycles.append(("p", canon_cycle(c.poly)))
        else:
            cycles.append(("c", curved_canon(c)))
    return ("REGION", tuple(sorted(cycles)))


def curved_canon(c):
    """Canonical form of a curved closed curve's *representation*: segments rotated so
    that the lexicographically smallest start point comes first (no merging of split
    pieces: used only where the representation is not subdivided)."""
    segs = list(c.segs)
    k = min(range(len(segs)), key=lambda i: (segs[i][0], segs[i]))
    return tuple(segs[k:] + segs[:k])


def shape_size(*shapes):
    xs, ys = [], []
    for s in shapes:
        for j in all_jordans(s):
            for seg in j.segments:
                for p in seg.ctrlpoints:
                    xs.append(ex(p._x))
                    ys.append(ex(p._y))
    if not xs:
        return F(1)
    return max(max(xs) - min(xs), max(ys) - min(ys), F(1, 10**12))


# --------------------------------------------------------------------------- arrangement of lines
def line_through(a, b):
    """(A, B, C) with A x + B y + C = 0, normalised (primitive, sign-fixed)."""
    A = b[1] - a[1]
    B = a[0] - b[0]
    C = -(A * a[0] + B * a[1])
    # normalise: scale so that first non-zero of (A,B) is 1
    lead = A if A != 0 else B
    return (A / lead, B / lead, C / lead)


def cut_convex(cell, line):
    A, B, C = line
    vals = [A * x + B * y + C for x, y in cell]
    if all(v >= 0 for v in vals) or all(v <= 0 for v in vals):
        return [cell]
    pos, neg = [], []
    n = len(cell)
    for i in range(n):
        p, q = cell[i], cell[(i + 1) % n]
        vp, vq = vals[i], vals[(i + 1) % n]
        if vp >= 0:
            pos.append(p)
        if vp <= 0:
            neg.append(p)
        if (vp > 0 and vq < 0) or (vp < 0 and vq > 0):
            t = vp / (vp - vq)
            m = (p[0] + t * (q[0] - p[0]), p[1] + t * (q[1] - p[1]))
            pos.append(m)
            neg.append(m)
    out = []
    for c in (pos, neg):
        if len(c) >= 3 and area2(c) != 0:
            out.append(c)
    return out


def arrangement_witnesses(lines, box):
    """One interior point (vertex centroid) per face of the arrangement of `lines`
    inside the rectangle box = (x0, y0, x1, y1).  Exact."""
    x0, y0, x1, y1 = box
    cells = [[(x0, y0), (x1, y0), (x1, y1), (x0, y1)]]
    for ln in lines:
        new = []
        for c in cells:
            new.extend(cut_convex(c, ln))
        cells = new
    wit = []
    for c in cells:
        n = len(c)
        wit.append((sum(p[0] for p in c) / n, sum(p[1] for p in c) / n))
    return wit


def poly_lines(curves):
    lines = []
    seen = set()
    for c in curves:
        for s in c.segs:
            if len(s) != 2 or s[0] == s[1]:
                continue
            ln = line_through(s[0], s[1])
            if ln not in seen:
                seen.add(ln)
                lines.append(ln)
    return lines


def witnesses_for(curves, margin=3):
    xs = [p[0] for c in curves for s in c.segs for p in s]
    ys = [p[1] for c in curves for s in c.segs for p in s]
    w = max(max(xs) - min(xs), max(ys) - min(ys))
    m = w * F(margin, 10) + F(0)
    if m == 0:
        m = F(1)
    box = (min(xs) - m, min(ys) - m, max(xs) + m, max(ys) + m)
    return arrangement_witnesses(poly_lines(curves), box)


# --------------------------------------------------------------------------- general position
def poly_pair_general_position(c1, c2):
    """No vertex of one on the other's boundary, no collinear overlapping edges."""
    p1, p2 = c1.poly, c2.poly
    for v in p1:
        if winding_poly(p2, v) is ON:
            return False
    for v in p2:
        if winding_poly(p1, v) is ON:
            return False
    return True


def poly_crossings(c1, c2):
    """Exact crossing points of two polygonal curves: list of (i, j, t, u, point)."""
    out = []
    for i, s in enumerate(c1.segs):
        for j, r in enumerate(c2.segs):
            x = seg_seg(s[0], s[1], r[0], r[1])
            if x is None:
                continue
            if x[0] == "overlap":
                out.append((i, j, None, None, None))
            else:
                out.append((i, j, x[1], x[2], x[3]))
    return out


def regions_general_position(curvesets):
    """curvesets: list (one per leaf) of lists of polygonal RCurve.
    Pairwise: general position of every curve of one leaf against every curve of another.
    Triple: no crossing point of two curves lies on a third leaf's curve."""
    n = len(curvesets)
    for i in range(n):
        for j in range(i + 1, n):
            for a in curvesets[i]:
                for b in curvesets[j]:
                    if not poly_pair_general_position(a, b):
                        return False
    if n >= 3:
        for i in range(n):
            for j in range(i + 1, n):
                pts = []
                for a in curvesets[i]:
                    for b in curvesets[j]:
                        pts += [x[4] for x in poly_crossings(a, b)]
                for k in range(n):
                    if k in (i, j):
                        continue
                    for c in curvesets[k]:
                        for p in pts:
                            if winding_poly(c.poly, p) is ON:
                                return False
    return True


def edge_on_edges(a, b, curves):
    """True iff the segment ab lies on (is a subset of) a single edge of the given
    polygonal curves or on a chain of collinear edges."""
    # collect collinear coverage intervals along ab
    r = (b[0] - a[0], b[1] - a[1])
    rr = r[0] * r[0] + r[1] * r[1]
    if rr == 0:
        return True
    ivs = []
    for c in curves:
        for s in c.segs:
            if len(s) != 2:
                continue
            p, q = s
            if cross(a, b, p) != 0 or cross(a, b, q) != 0:
                continue
            t0 = ((p[0] - a[0]) * r[0] + (p[1] - a[1]) * r[1]) / rr
            t1 = ((q[0] - a[0]) * r[0] + (q[1] - a[1]) * r[1]) / rr
            ivs.append((min(t0, t1), max(t0, t1)))
    ivs.sort()
    cur = F(0)
    for lo, hi in ivs:
        if lo > cur:
            break
        cur = max(cur, hi)
        if cur >= 1:
            return True
    return cur >= 1


def seg_vertical(ctrl, a, b):
    """int over segment of x^a y^b dy (exact)."""
    xs = bernstein_to_power([p[0] for p in ctrl])
    ys = bernstein_to_power([p[1] for p in ctrl])
    dy = [k * c for k, c in enumerate(ys)][1:] or [F(0)]
    return pint01(pmul(pmul(ppow(xs, a), ppow(ys, b)), dy))
