"""C16 Primitive factories build the documented positive shapes or raise ValueError.

Exhaustive parameter grid (valid and invalid) for square / triangle / regular_polygon /
circle / polygon, against closed forms."""
from fractions import Fraction as F
import math

from .. import alphabets as al
from .. import refgeo as rg
from ..runner import call_limited, exc_str

ID = "C16"
LEVEL = "exploration"
RULE = (
    "square/triangle: side in {1, 2, 7, 1/3, 5/2, 0.75, 1e-3, 1e4} x centre in {(0,0), (3,-2), (1/3,2/7), (0.5,-1.25), (1e6,1e6)}; "
    "regular_polygon: nsides 3..12, 17, 64 x radius x centre and every nsides 3..130 (thorough 3..420) at unit radius; circle: ndivangle 4..16, 32, 64, 256 x radius x centre; polygon: all "
    "lattice triangles/quadrilaterals and the P alphabet in both orientations, vertices as tuples, lists and Point2D; invalid: "
    "side/radius in {0, -1, 'a', None, [], nan}, nsides in {2, 0, -3, 3.0, '4'}, ndivangle in {3, 0, 4.0, '8'}, centre in {'ab', (1,), "
    "(1,2,3), None}. Oracle: SimpleShape, counter-clockwise, exact vertex list (closed form; exact for rational parameters), closed-form "
    "area, centre inside, far points outside, box; circle: every arc is the quadratic with end points on the circle and middle control "
    "point at r/cos(pi/n) (so every point of it lies in [r, r(cos+1/cos)/2]), area = closed form, above pi r^2 and decreasing in n; polygon "
    "keeps vertices and order; invalid => ValueError exactly. non-trivial = every valid parameter combination; distinct = parameter tuple."
)
ASSUMPTIONS = ["trigonometric closed forms are evaluated in floats and compared to 1e-9 relative"]
CASE_TIMEOUT = 900

SIDES = [1, 2, 7, "1/3", "5/2", 0.75, 1e-3, 1e4]
CENTRES = [(0, 0), (3, -2), ("1/3", "2/7"), (0.5, -1.25), (1e6, 1e6)]
BAD_SIZE = [0, -1, "a", None, [], float("nan"), -0.5, "1"]
BAD_CENTRE = ["ab", (1,), (1, 2, 3), None, "a", ("a", "b")]


def num(v):
    return F(v) if isinstance(v, str) else v


def cen(c):
    return tuple(num(v) for v in c)


def israt(*vs):
    return all(isinstance(v, (int, F)) and not isinstance(v, bool) for v in vs)


def verts_of(S):
    return [(p._x, p._y) for p in S.jordans[0].vertices]


def cases(tier, seed):
    specs = [{"id": f, "family": f, "tier": tier} for f in ("square", "triangle", "regular", "circle", "invalid", "point2d")]
    n = len(al.T3)
    for k in range(8):
        specs.append({"id": "polygon:%d" % k, "family": "polygon", "polygon": k, "tier": tier, "seed": seed})
    return specs


def check_common(fail, S, want_verts, exact, area, centre_pt, scale):
    if rg.kind_of(S) != "SimpleShape":
        fail("kind", "returned a %s" % rg.kind_of(S))
        return
    got = verts_of(S)
    c = rg.jordan_curve(S.jordans[0])
    if c.area() <= 0:
        fail("orientation", "not counter-clockwise (area %s)" % float(c.area()))
    if want_verts is not None:
        if len(got) != len(want_verts):
            fail("vertices", "%d vertices, expected %d" % (len(got), len(want_verts)))
        else:
            for g, w in zip(got, want_verts):
                for a, b in zip(g, w):
                    if exact:
                        ok = rg.typecode(a) in ("i", "F") and rg.ex(a) == rg.ex(b)
                    else:
                        ok = abs(rg.ex(a) - rg.ex(b)) <= F(1, 10**9) * scale
                    if not ok:
                        fail("vertices", "vertex %s, documented %s" % (g, w))
                        return
    if area is not None:
        tol = 0 if exact else F(1, 10**9) * scale * scale
        if abs(c.area() - rg.ex(area)) > tol:
            fail("area", "area %s, closed form %s" % (float(c.area()), float(area)))
        st, fl = call_limited(lambda: float(S), 30)
        if st != "ok" or abs(F(fl) - rg.ex(area)) > F(1, 10**9) * scale * scale:
            fail("float", "float(S) = %r, closed form %s" % (fl, float(area)))
    if centre_pt is not None:
        st, v = call_limited(lambda: centre_pt in S, 30)
        if st != "ok" or v is not True:
            fail("centre", "the interior point %s is not contained" % (centre_pt,))
    far = (float(rg.ex(got[0][0])) + 1e3 * float(scale), float(rg.ex(got[0][1])) - 7e2 * float(scale))
    st, v = call_limited(lambda: far in S, 30)
    if st != "ok" or v is not False:
        fail("far", "far point %s contained" % (far,))


def run_case(spec):
    from .. import lib

    viols, hist, nontrivial = [], {}, []
    evals = [0]
    Pr = lib.Primitive

    def mkfail(cid):
        def fail(tag, msg):
            viols.append({"case_id": "%s :: %s" % (cid, tag), "what": msg, "replay": {"id": "replay:" + spec["id"], **{k: v for k, v in spec.items() if k != "id"}}})

        return fail

    sid = spec["family"]
    if sid == "square":
        for s in SIDES:
            for c in CENTRES:
                side, ctr = num(s), cen(c)
                cid = "square(side=%s, center=%s)" % (s, c)
                st, S = call_limited(lambda: Pr.square(side, ctr), 30)
                evals[0] += 1
                nontrivial.append(cid)
                fail = mkfail(cid)
                if st != "ok":
                    fail("noresult", exc_str(S) if st == "raise" else st)
                    continue
                exact = israt(side, *ctr)
                h = rg.ex(side) / 2
                cx, cy = rg.ex(ctr[0]), rg.ex(ctr[1])
                want = [(cx + h, cy + h), (cx - h, cy + h), (cx - h, cy - h), (cx + h, cy - h)]
                scale = max(abs(cx), abs(cy), rg.ex(side))
                check_common(fail, S, want, exact, rg.ex(side) ** 2 if exact or abs(cx) < 10 else None, (float(cx), float(cy)) if abs(cx) < 1e5 or side >= 1 else None, scale)
        st, S = call_limited(lambda: Pr.square(), 30)
        check_common(mkfail("square()"), S, [(F(1, 2), F(1, 2)), (F(-1, 2), F(1, 2)), (F(-1, 2), F(-1, 2)), (F(1, 2), F(-1, 2))], True, F(1), (0, 0), F(1))
    elif sid == "triangle":
        for s in SIDES:
            for c in CENTRES:
                side, ctr = num(s), cen(c)
                cid = "triangle(side=%s, center=%s)" % (s, c)
                st, S = call_limited(lambda: Pr.triangle(side, ctr), 30)
                evals[0] += 1
                nontrivial.append(cid)
                fail = mkfail(cid)
                if st != "ok":
                    fail("noresult", exc_str(S) if st == "raise" else st)
                    continue
                exact = israt(side, *ctr)
                a = rg.ex(side)
                cx, cy = rg.ex(ctr[0]), rg.ex(ctr[1])
                want = [(cx, cy), (cx + a, cy), (cx, cy + a)]
                scale = max(abs(cx), abs(cy), a)
                inner = (float(cx + a / 4), float(cy + a / 4)) if abs(cx) < 1e5 or a >= 1 else None
                check_common(fail, S, want, exact, a * a / 2 if exact or abs(cx) < 10 else None, inner, scale)
    elif sid == "regular":
        for n in list(range(3, 13)) + [17, 64]:
            for r in (1, 2, "1/3", 0.75, 1e4):
                for c in CENTRES[:4]:
                    rad, ctr = num(r), cen(c)
                    cid = "regular_polygon(%d, radius=%s, center=%s)" % (n, r, c)
                    st, S = call_limited(lambda: Pr.regular_polygon(n, rad, ctr), 30)
                    evals[0] += 1
                    nontrivial.append(cid)
                    fail = mkfail(cid)
                    if st != "ok":
                        fail("noresult", exc_str(S) if st == "raise" else st)
                        continue
                    cx, cy = rg.ex(ctr[0]), rg.ex(ctr[1])
                    R = rg.ex(rad)
                    if n == 4:
                        want = [(cx + R, cy), (cx, cy + R), (cx - R, cy), (cx, cy - R)]
                        exact = israt(rad, *ctr)
                    else:
                        want = [(cx + R * F(math.cos(2 * math.pi * k / n)), cy + R * F(math.sin(2 * math.pi * k / n))) for k in range(n)]
                        exact = False
                    area = F(n) / 2 * R * R * F(math.sin(2 * math.pi / n)) if n != 4 else 2 * R * R
                    check_common(fail, S, want, exact, area if exact else None, (float(cx), float(cy)), max(R, abs(cx), abs(cy)))
                    if not exact:
                        a = rg.jordan_curve(S.jordans[0]).area()
                        if abs(a - area) > F(1, 10**9) * R * R:
                            fail("area", "area %s, closed form %s" % (float(a), float(area)))
        # every number of sides (vertex count, angles, area) at one radius and centre
        top = 130 if spec.get("tier", "quick") == "quick" else 420
        for n in range(3, top + 1):
            cid = "regular_polygon(%d)" % n
            st, S = call_limited(lambda: Pr.regular_polygon(n), 30)
            evals[0] += 1
            nontrivial.append(cid)
            fail = mkfail(cid)
            if st != "ok":
                fail("noresult", exc_str(S) if st == "raise" else st)
                continue
            got = verts_of(S)
            if len(got) != n or len(S.jordans[0].segments) != n:
                fail("vertices", "%d vertices and %d segments for nsides=%d" % (len(got), len(S.jordans[0].segments), n))
                continue
            if n != 4:
                for k, g in enumerate(got):
                    if abs(float(g[0]) - math.cos(2 * math.pi * k / n)) > 1e-9 or abs(float(g[1]) - math.sin(2 * math.pi * k / n)) > 1e-9:
                        fail("vertices", "vertex %d is %s" % (k, g))
                        break
            a = float(rg.jordan_curve(S.jordans[0]).area())
            if abs(a - n / 2 * math.sin(2 * math.pi / n)) > 1e-9:
                fail("area", "area %r, closed form %r" % (a, n / 2 * math.sin(2 * math.pi / n)))
    elif sid == "circle":
        for c in CENTRES[:4]:
            for r in (1, 2, "1/3", 0.75, 1e3):
                prev = None
                for n in list(range(4, 17)) + [32, 64, 256]:
                    rad, ctr = num(r), cen(c)
                    cid = "circle(radius=%s, center=%s, ndivangle=%d)" % (r, c, n)
                    st, S = call_limited(lambda: Pr.circle(rad, ctr, n), 60)
                    evals[0] += 1
                    nontrivial.append(cid)
                    fail = mkfail(cid)
                    if st != "ok":
                        fail("noresult", exc_str(S) if st == "raise" else st)
                        continue
                    if rg.kind_of(S) != "SimpleShape":
                        fail("kind", rg.kind_of(S))
                        continue
                    cv = rg.jordan_curve(S.jordans[0])
                    R = float(rg.ex(rad))
                    cx, cy = float(rg.ex(ctr[0])), float(rg.ex(ctr[1]))
                    if len(cv.segs) != n or any(len(sg) != 3 for sg in cv.segs):
                        fail("arcs", "%d segments of degrees %s" % (len(cv.segs), sorted({len(sg) - 1 for sg in cv.segs})))
                        continue
                    lo, hi = R, R * (math.cos(math.pi / n) + 1 / math.cos(math.pi / n)) / 2
                    tol = 1e-9 * max(R, abs(cx), abs(cy), 1)
                    bad = None
                    for k, sg in enumerate(cv.segs):
                        d0 = math.hypot(float(sg[0][0]) - cx, float(sg[0][1]) - cy)
                        dm = math.hypot(float(sg[1][0]) - cx, float(sg[1][1]) - cy)
                        ang = math.atan2(float(sg[0][1]) - cy, float(sg[0][0]) - cx)
                        if abs(d0 - R) > tol or abs(dm - R / math.cos(math.pi / n)) > tol:
                            bad = "arc %d: end point at distance %r, middle control point at %r (r=%r, r/cos=%r)" % (k, d0, dm, R, R / math.cos(math.pi / n))
                            break
                        want_ang = 2 * math.pi * k / n
                        if abs(math.remainder(ang - want_ang, 2 * math.pi)) > 1e-9:
                            bad = "arc %d starts at angle %r, expected %r" % (k, ang, want_ang)
                            break
                        for i in range(33):
                            p = rg.bez_eval(sg, F(i, 32))
                            d = math.hypot(float(p[0]) - cx, float(p[1]) - cy)
                            if d < lo - tol or d > hi + tol:
                                bad = "arc %d leaves the band [%r, %r]: distance %r" % (k, lo, hi, d)
                                break
                        if bad:
                            break
                    if bad:
                        fail("band", bad)
                    area = float(cv.area())
                    t = math.tan(math.pi / n)
                    s2 = math.sin(2 * math.pi / n)
                    # polygon of the end points + n parabolic caps (2/3 * chord * sagitta-height of the control triangle)
                    chord = 2 * R * math.sin(math.pi / n)
                    height = R / math.cos(math.pi / n) - R * math.cos(math.pi / n)
                    closed = n * (0.5 * R * R * s2 + (2.0 / 3.0) * 0.5 * chord * height)
                    if abs(area - closed) > 1e-9 * R * R:
                        fail("area", "area %r, closed form %r" % (area, closed))
                    if area < math.pi * R * R - 1e-9 * R * R:
                        fail("area", "area %r below pi r^2" % area)
                    if prev is not None and area > prev + 1e-9 * R * R:
                        fail("monotone", "area increases with ndivangle: %r after %r" % (area, prev))
                    prev = area
                    if c != CENTRES[4]:
                        st, v = call_limited(lambda: (cx, cy) in S, 30)
                        if st != "ok" or v is not True:
                            fail("centre", "centre not contained")
                        st, v = call_limited(lambda: (cx + 1.5 * R, cy + 1.5 * R) in S, 30)
                        if st != "ok" or v is not False:
                            fail("far", "outside point contained")
                if prev is not None and abs(prev - math.pi * float(rg.ex(num(r))) ** 2) > 1e-4 * float(rg.ex(num(r))) ** 2:
                    mkfail("circle(radius=%s, center=%s, ndivangle=256)" % (r, c))("converge", "area %r does not approach pi r^2" % prev)
    elif sid == "point2d":
        # the caller's Point2D centre is an input, not scratch space: unchanged after the call, and a
        # second call with the same object gives the same shape
        for cx, cy in ((3, -2), (F(1, 3), F(2, 7)), (0.5, -1.25)):
            for nm, fn in (
                ("square(2, c)", lambda c: Pr.square(2, c)),
                ("square(0.75, c)", lambda c: Pr.square(0.75, c)),
                ("triangle(2, c)", lambda c: Pr.triangle(2, c)),
                ("regular_polygon(5, 1, c)", lambda c: Pr.regular_polygon(5, 1, c)),
                ("regular_polygon(4, 2, c)", lambda c: Pr.regular_polygon(4, 2, c)),
                ("circle(1, c, 8)", lambda c: Pr.circle(1, c, 8)),
            ):
                c = lib.Point2D(cx, cy)
                cid = "%s with c = Point2D(%s, %s)" % (nm, cx, cy)
                fail = mkfail(cid)
                st, S1 = call_limited(lambda: fn(c), 30)
                evals[0] += 1
                nontrivial.append(cid)
                if st != "ok":
                    fail("noresult", exc_str(S1) if st == "raise" else st)
                    continue
                if (rg.ex(c._x), rg.ex(c._y)) != (rg.ex(cx), rg.ex(cy)):
                    fail("centre-modified", "the Point2D passed as centre is now (%s, %s)" % (c._x, c._y))
                st, S2 = call_limited(lambda: fn(c), 30)
                st3, S3 = call_limited(lambda: fn((cx, cy)), 30)
                if st != "ok" or st3 != "ok" or rg.geom_sig(S2) != rg.geom_sig(S3) or rg.geom_sig(S1) != rg.geom_sig(S3):
                    fail("centre-reuse", "calls with the same Point2D centre / with the tuple give different shapes")
                if any(p is c for p in S1.jordans[0].vertices):
                    fail("centre-aliased", "the shape uses the caller's Point2D as a vertex")
                hist["point2d"] = hist.get("point2d", 0) + 1
        vs = [lib.Point2D(0, 0), lib.Point2D(4, 0), lib.Point2D(1, 3)]
        S = Pr.polygon(vs)
        S.move(5, 5)
        if [(rg.ex(p._x), rg.ex(p._y)) for p in vs] != [(0, 0), (4, 0), (1, 3)]:
            mkfail("polygon(list of Point2D)")("vertices-aliased", "moving the polygon moved the caller's Point2D vertices")
    elif sid == "invalid":
        calls = []
        for b in BAD_SIZE:
            calls.append(("square(side=%r)" % (b,), lambda b=b: Pr.square(b)))
            calls.append(("triangle(side=%r)" % (b,), lambda b=b: Pr.triangle(b)))
            calls.append(("regular_polygon(5, radius=%r)" % (b,), lambda b=b: Pr.regular_polygon(5, b)))
            calls.append(("circle(radius=%r)" % (b,), lambda b=b: Pr.circle(b)))
        for b in BAD_CENTRE:
            calls.append(("square(center=%r)" % (b,), lambda b=b: Pr.square(1, b)))
            calls.append(("triangle(center=%r)" % (b,), lambda b=b: Pr.triangle(1, b)))
            calls.append(("regular_polygon(5, center=%r)" % (b,), lambda b=b: Pr.regular_polygon(5, 1, b)))
            calls.append(("circle(center=%r)" % (b,), lambda b=b: Pr.circle(1, b)))
        for b in (2, 0, -3, 3.0, "4", None, 1):
            calls.append(("regular_polygon(nsides=%r)" % (b,), lambda b=b: Pr.regular_polygon(b)))
        for b in (3, 0, -8, 4.0, "8", None):
            calls.append(("circle(ndivangle=%r)" % (b,), lambda b=b: Pr.circle(1, (0, 0), b)))
        for nm, fn in calls:
            st, val = call_limited(fn, 30)
            evals[0] += 1
            nontrivial.append(nm)
            if st == "raise" and type(val) is ValueError:
                hist["ValueError"] = hist.get("ValueError", 0) + 1
                continue
            mkfail(nm)("invalid", "expected ValueError, got %s" % ("a %s" % rg.kind_of(val) if st == "ok" else (exc_str(val) if st == "raise" else st)))
    else:
        k = spec["polygon"]
        tier, seed = spec["tier"], spec["seed"]
        fam = []
        for i in range(len(al.T3)):
            if i % 8 == k and (tier == "thorough" or (i // 8) % 4 == seed % 4):
                fam.append(("T3.%d" % i, al.T3[i]))
        for i, q in enumerate(al.Q3()):
            if i % 8 == k:
                fam.append(("Q3.%d" % i, q))
        for i, n in enumerate(al.P_ORDER):
            if i % 8 == k:
                fam.append(("P." + n, al.P_POLYS[n]))
        for name, vs in fam:
            for orient in ("ccw", "cw"):
                vv = list(vs) if orient == "ccw" else [vs[0]] + list(vs[:0:-1])
                for form, conv in (("tuples", lambda v: [tuple(p) for p in v]), ("lists", lambda v: [list(p) for p in v]), ("points", lambda v: [lib.Point2D(p) for p in v]), ("floats", lambda v: [(float(x), float(y)) for x, y in v]), ("fractions", lambda v: [(F(x, 3), F(y, 3)) for x, y in v])):
                    cid = "polygon(%s %s as %s)" % (name, orient, form)
                    data = conv(vv)
                    st, S = call_limited(lambda: Pr.polygon(data), 30)
                    evals[0] += 1
                    nontrivial.append(cid)
                    fail = mkfail(cid)
                    if st != "ok":
                        fail("noresult", exc_str(S) if st == "raise" else st)
                        continue
                    if rg.kind_of(S) != "SimpleShape":
                        fail("kind", rg.kind_of(S))
                        continue
                    sc = F(1, 3) if form == "fractions" else F(1)
                    want = [(F(x) * sc, F(y) * sc) for x, y in vv]
                    got = [(rg.ex(a), rg.ex(b)) for a, b in verts_of(S)]
                    if got != want:
                        fail("vertices", "vertices %s, given %s" % (got[:4], want[:4]))
                    a = rg.jordan_curve(S.jordans[0]).area()
                    if (a > 0) != (orient == "ccw"):
                        fail("orientation", "a %s list gives area %s" % (orient, a))
                    # centroid of a triangle fan piece is inside the polygon for these families? use exact reference
                    reg = rg.interpret(S)
                    cx = sum(p[0] for p in want) / len(want)
                    cy = sum(p[1] for p in want) / len(want)
                    truth = reg.contains((cx, cy))
                    if truth != rg.ON:
                        st, v = call_limited(lambda: (cx, cy) in S, 30)
                        if st != "ok" or bool(v) != (truth == rg.IN):
                            fail("membership", "vertex centroid %s: %r, truth %s" % ((cx, cy), v, truth))
                    hist["polygon:" + orient] = hist.get("polygon:" + orient, 0) + 1
    seen, out = set(), []
    for v in viols:
        if v["case_id"] not in seen:
            seen.add(v["case_id"])
            out.append(v)
    return {"violations": out, "evals": evals[0], "nontrivial": nontrivial, "hist": hist, "sample": {"family": sid, "first": nontrivial[0] if nontrivial else None}}


def finalize(results, cov):
    h = cov["outcome_histogram"]
    errs = []
    if not h.get("ValueError"):
        errs.append("vacuity: no invalid parameter rejected")
    if not h.get("polygon:cw"):
        errs.append("vacuity: no clockwise polygon")
    return errs
