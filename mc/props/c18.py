"""C18 Segment calculus is exact: evaluation, derivative, box, point-on-curve, winding.

Finite identity checks per degree 1..6: segment(t) is linear in the control points and a
polynomial of degree p in t, so agreement with de Casteljau on the 2(p+1) basis control
polygons at p+1 parameters proves the identity for all control polygons and all t (extra
lattice polygons and parameters guard the linearity assumption); same for derivatives and
split pieces."""
from fractions import Fraction as F
import math

from .. import refgeo as rg
from ..runner import call_limited, exc_str

ID = "C18"
LEVEL = "exploration"
RULE = (
    "degrees 1..6: control polygons = the 2(p+1) basis polygons (unit vector e_i in x or in y), 6 lattice polygons and 3 Fraction/"
    "float polygons per degree; evaluation at t = k/12 (k=0..12, also as floats and as a tuple of nodes), derivate(k) for k = 1..p+1 "
    "against exact repeated differences, split at every non-empty subset of {1/3, 1/2, 3/4} with piece_j(s) = segment(t_j + s dt) at "
    "p+1 rational s, box() against 65 exact points per segment; `point in segment`: 8 regular float segments per degree (x monotone, "
    "no cusps/loops), segment(k/32) must be `in`, points at normal offsets +-1e-4, +-1e-2 must not; winding_number(segment, centre) "
    "`point in segment` with ALL-RATIONAL data: 4 straight segments per degree (degree-elevated lines: short, long, generic, vertical) at 57 parameters (k/12, a/b +- 1e-5 and 1e-7 for b <= 5, large-denominator parameters), normal offsets must not; winding against the exactly subdivided subtended angle for a 9x9 grid of centres; after all these queries the SAME object is "
    "inverted in place and evaluation / derivatives / split / point-on-curve / area are asked again against the reversed polygon; finally the degrees are visited in the order 1,2,3,4,5,6,5,4,3,2,1,4,2,6,1,3,5 in ONE process (memo tables keyed by degree). non-trivial = all; distinct = (degree, polygon, query)."
)
ASSUMPTIONS = ["rational Newton projections on CURVED Fraction segments (degree >= 2) are excluded: 20-300 s per query in exact arithmetic on the unchanged tree; rational straight segments of every degree are included"]
CASE_TIMEOUT = 1500


def polygons(p):
    out = []
    for i in range(p + 1):
        out.append(("ex%d" % i, [(F(1) if k == i else F(0), F(0)) for k in range(p + 1)]))
        out.append(("ey%d" % i, [(F(0), F(1) if k == i else F(0)) for k in range(p + 1)]))
    lat = [
        [(k, (k * k) % 5) for k in range(p + 1)],
        [((3 * k) % 7 - 3, k) for k in range(p + 1)],
        [(k, -k) for k in range(p + 1)],
        [((-1) ** k * k, 2 * k + 1) for k in range(p + 1)],
        [(5 - k, (2 * k) % 3) for k in range(p + 1)],
        [(k * k, k) for k in range(p + 1)],
    ]
    for i, pts in enumerate(lat):
        out.append(("lat%d" % i, [(F(x), F(y)) for x, y in pts]))
    out.append(("frac", [(F(k, 3) + F(1, 7), F(k * k, 5) - F(2, 3)) for k in range(p + 1)]))
    out.append(("float", [(0.25 * k + 0.1, 0.5 * ((k * 3) % 4) - 0.3) for k in range(p + 1)]))
    out.append(("mixed", [(F(k), 0.5 * k * k) for k in range(p + 1)]))
    return out


def regular_segments(p):
    """Float control polygons with strictly increasing x (regular, no loops)."""
    ys = [
        [0.0, 0.5, -0.25, 0.75, 0.1, 0.6, -0.2],
        [0.0, 1.0, 1.0, 0.0, 1.0, 0.0, 1.0],
        [0.3, 0.2, 0.6, 0.1, 0.9, 0.4, 0.0],
        [0.0, 0.0, 0.0, 1.0, 1.0, 1.0, 0.0],
        [1.0, 0.0, -1.0, 0.0, 1.0, 0.0, -1.0],
        [0.0, 0.1, 0.2, 0.3, 0.45, 0.7, 1.0],
        [0.5, -0.5, 0.5, -0.5, 0.5, -0.5, 0.5],
        [0.0, 2.0, 0.0, 2.0, 0.0, 2.0, 0.0],
    ]
    out = []
    for i, y in enumerate(ys):
        out.append(("reg%d" % i, [(2.0 * k / p, y[k]) for k in range(p + 1)]))
    return out


def rational_lines(p):
    """Straight all-rational segments of degree p (a line degree-elevated p-1 times)."""
    out = []
    for nm, a, b in (("short", (F(0), F(0)), (F(1), F(1, 2))), ("long", (F(0), F(0)), (F(300), F(-700))), ("generic", (F(1, 7), F(2, 3)), (F(22, 7), F(-5, 3))), ("vertical", (F(2), F(-1)), (F(2), F(40)))):
        c = [a, b]
        while len(c) - 1 < p:
            n = len(c) - 1
            c = [c[0]] + [tuple(F(i, n + 1) * c[i - 1][k] + (1 - F(i, n + 1)) * c[i][k] for k in (0, 1)) for i in range(1, n + 1)] + [c[-1]]
        out.append(("ratline-" + nm, c))
    return out


RATIONAL_PARAMS = sorted(
    set(
        [F(k, 12) for k in range(13)]
        + [F(a, b) + s * F(1, 10**e) for b in (2, 3, 4, 5) for a in range(1, b) for s in (1, -1) for e in (5, 7)]
        + [F(2469, 19753), F(20001, 40000), F(12345, 99991), F(99989, 99991), F(1, 10**6), 1 - F(1, 10**6), F(314159, 10**6), F(271828, 10**6)]
    )
)


def scaled_segments(p):
    """Two of the regular segments in other units of length: 1/16384 and 1024 (exact in floats)."""
    out = []
    for name, ctrl in regular_segments(p)[:2]:
        for nm, f in (("small", 1.0 / 16384), ("large", 1024.0)):
            out.append(("%s-%s" % (name, nm), [(x * f + 3 * f, y * f - f) for x, y in ctrl]))
    return out


def overshoot_segments(p):
    """Straight segments of degree p >= 3 whose interior control points overshoot the end
    point (the box is longer than the curve); regular: x'(t) > 0.  Built by degree-elevating
    the cubic with abscissae 0, 4, 2.5, 3.5 and placed on the generic line y = 0.3 x + 0.2."""
    if p < 3:
        return []
    xs = [F(0), F(4), F(5, 2), F(7, 2)]
    while len(xs) - 1 < p:
        n = len(xs) - 1
        xs = [xs[0]] + [F(i, n + 1) * xs[i - 1] + (1 - F(i, n + 1)) * xs[i] for i in range(1, n + 1)] + [xs[-1]]
    return [("overshoot", [(float(x), float(F(3, 10) * x + F(1, 5))) for x in xs])]


def cases(tier, seed):
    return [{"id": "degree%d" % p, "degree": p} for p in range(1, 7)] + [{"id": "sequence", "sequence": True}]


def exact_derivative(ctrl, k):
    c = [tuple(x) for x in ctrl]
    for _ in range(k):
        c = list(rg.bez_deriv(c))
    return c


def subtended(ctrl, center):
    """Angle subtended at center by the Bezier piece, by subdivision until the centre is
    outside the control box of every piece."""
    total = 0.0
    stack = [tuple(ctrl)]
    while stack:
        c = stack.pop()
        box = rg.bbox(c)
        d = max(box[2] - box[0], box[3] - box[1])
        if len(c) == 2 or not rg.in_bbox(center, box) or d < F(1, 10**12):
            a = c[0]
            b = c[-1]
            total += math.atan2(
                float((a[0] - center[0]) * (b[1] - center[1]) - (a[1] - center[1]) * (b[0] - center[0])),
                float((a[0] - center[0]) * (b[0] - center[0]) + (a[1] - center[1]) * (b[1] - center[1])),
            )
            continue
        l, r = rg.bez_split(rg._round_ctrl(c), F(1, 2))
        stack.append(r)
        stack.append(l)
    return total


def _run_degree(spec):
    from .. import lib
    from itertools import combinations

    p = spec["degree"]
    viols, hist, nontrivial = [], {}, []
    evals = 0
    rep = {"id": "replay:degree%d" % p, "degree": p}

    def fail(cid, tag, msg):
        viols.append({"case_id": "deg%d %s :: %s" % (p, cid, tag), "what": msg, "replay": rep})

    ts = [F(k, 12) for k in range(13)]
    quick_only = spec.get("sequence_step") is not None
    for name, ctrl in (polygons(p)[:2] + polygons(p)[-3:] if quick_only else polygons(p)):
        exact = all(not isinstance(v, float) for q in ctrl for v in q)
        ref = [(rg.ex(x), rg.ex(y)) for x, y in ctrl]
        tol = F(0) if exact else F(1, 10**12)
        seg = lib.PlanarCurve([tuple(q) for q in ctrl])
        nontrivial.append((p, name))
        # evaluation
        for t in ts:
            for tv, tn in ((t, "frac"), (float(t), "float")):
                st, val = call_limited(lambda: seg(tv), 30)
                evals += 1
                if st != "ok":
                    fail(name, "eval-noresult", "segment(%s) %s" % (tv, exc_str(val) if st == "raise" else st))
                    break
                want = rg.bez_eval(ref, rg.ex(tv))
                got = (rg.ex(val[0]), rg.ex(val[1]))
                tl = tol if tn == "frac" else F(1, 10**11)
                if abs(got[0] - want[0]) > tl or abs(got[1] - want[1]) > tl:
                    fail(name, "eval", "segment(%s) = %s, Bernstein sum %s" % (tv, got, want))
                    break
                if exact and tn == "frac" and (rg.typecode(val[0]) not in ("i", "F") or rg.typecode(val[1]) not in ("i", "F")):
                    fail(name, "eval-type", "segment(%s) has coordinates of type %s" % (tv, rg.typecode(val[0])))
                    break
        st, vals = call_limited(lambda: seg.eval(tuple(ts)), 30)
        if st != "ok" or any(abs(rg.ex(v[0]) - rg.bez_eval(ref, t)[0]) > tol or abs(rg.ex(v[1]) - rg.bez_eval(ref, t)[1]) > tol for v, t in zip(vals, ts)):
            fail(name, "eval-tuple", "eval(tuple of nodes) disagrees with the Bernstein sum")
        # derivatives
        for k in range(1, p + 2):
            st, d = call_limited(lambda: seg.derivate(k), 30)
            evals += 1
            if st != "ok":
                fail(name, "derivate-noresult", "derivate(%d) %s" % (k, exc_str(d) if st == "raise" else st))
                continue
            want = exact_derivative(ref, k) if k <= p else [(F(0), F(0))]
            for t in ts[: p + 2]:
                st, v = call_limited(lambda: d(t), 30)
                w = rg.bez_eval(want, t)
                if st != "ok" or abs(rg.ex(v[0]) - w[0]) > tol * 10**3 or abs(rg.ex(v[1]) - w[1]) > tol * 10**3:
                    fail(name, "derivate", "derivate(%d)(%s) = %s, exact %s" % (k, t, v if st == "ok" else st, w))
                    break
        # split
        nodes_all = [F(1, 3), F(1, 2), F(3, 4)]
        for r in (1, 2, 3):
            for nodes in combinations(nodes_all, r):
                st, pieces = call_limited(lambda: seg.split(nodes), 30)
                evals += 1
                if st != "ok":
                    fail(name, "split-noresult", "split(%s) %s" % (nodes, exc_str(pieces) if st == "raise" else st))
                    continue
                cuts = [F(0)] + list(nodes) + [F(1)]
                if len(pieces) != len(cuts) - 1:
                    fail(name, "split", "split(%s) gives %d pieces" % (nodes, len(pieces)))
                    continue
                bad = False
                for j, pc in enumerate(pieces):
                    for i in range(p + 1):
                        s = F(i, p)
                        st, v = call_limited(lambda: pc(s), 30)
                        w = rg.bez_eval(ref, cuts[j] + s * (cuts[j + 1] - cuts[j]))
                        if st != "ok" or abs(rg.ex(v[0]) - w[0]) > tol or abs(rg.ex(v[1]) - w[1]) > tol:
                            fail(name, "split", "piece %d of split(%s) at s=%s is %s, segment gives %s" % (j, nodes, s, v if st == "ok" else st, w))
                            bad = True
                            break
                    if bad:
                        break
        # box
        st, box = call_limited(lambda: seg.box(), 30)
        evals += 1
        if st != "ok":
            fail(name, "box", str(box))
        else:
            lo = (rg.ex(box.lowpt[0]), rg.ex(box.lowpt[1]))
            hi = (rg.ex(box.toppt[0]), rg.ex(box.toppt[1]))
            for k in range(65):
                q = rg.bez_eval(ref, F(k, 64))
                if not (lo[0] <= q[0] <= hi[0] and lo[1] <= q[1] <= hi[1]):
                    fail(name, "box", "segment(%s) = %s outside box %s %s" % (F(k, 64), q, lo, hi))
                    break
            cb = rg.bbox(ref)
            if (lo[0], lo[1], hi[0], hi[1]) != cb:
                fail(name, "box", "box %s %s is not the box of the control points %s" % (lo, hi, cb))
        # the same object after invert(): every answer must be that of the reversed polygon
        # (queries above have been asked before, so anything memoised per object is warm)
        st, ret = call_limited(lambda: seg.invert(), 30)
        evals += 1
        if st != "ok" or ret is not seg:
            fail(name, "invert", "invert() %s" % (exc_str(ret) if st == "raise" else ("does not return the segment" if st == "ok" else st)))
        else:
            rref = list(reversed(ref))
            for t in ts[: p + 3]:
                st, val = call_limited(lambda: seg(t), 30)
                want = rg.bez_eval(rref, t)
                if st != "ok" or abs(rg.ex(val[0]) - want[0]) > tol or abs(rg.ex(val[1]) - want[1]) > tol:
                    fail(name, "invert-eval", "after invert(), segment(%s) = %s, reversed Bernstein sum %s" % (t, val if st == "ok" else st, want))
                    break
            for k in range(1, p + 1):
                st, d = call_limited(lambda: seg.derivate(k), 30)
                want = exact_derivative(rref, k)
                bad = st != "ok"
                if not bad:
                    for t in ts[: p + 2]:
                        st2, v = call_limited(lambda: d(t), 30)
                        w = rg.bez_eval(want, t)
                        if st2 != "ok" or abs(rg.ex(v[0]) - w[0]) > tol * 10**3 or abs(rg.ex(v[1]) - w[1]) > tol * 10**3:
                            bad = True
                            break
                if bad:
                    fail(name, "invert-derivate", "after invert(), derivate(%d) is not the derivative of the reversed segment" % k)
                    break
            st, pieces = call_limited(lambda: seg.split((F(1, 3),)), 30)
            if st != "ok" or len(pieces) != 2 or any(abs(rg.ex(pieces[1](F(1, 2))[i]) - rg.bez_eval(rref, F(2, 3))[i]) > tol for i in (0, 1)):
                fail(name, "invert-split", "after invert(), split(1/3) does not retrace the reversed segment")
    # point on curve, all-rational data: straight segments of degree p (degree-elevated lines;
    # the Newton projection stays rational and cheap there) at parameters with small AND large
    # denominators, near and far from low-order fractions, short and long segments
    for name, ctrl in ([] if quick_only else rational_lines(p)):
        seg = lib.PlanarCurve([tuple(q) for q in ctrl])
        nontrivial.append((p, name))
        for t in RATIONAL_PARAMS:
            q = rg.bez_eval(ctrl, t)
            st, v = call_limited(lambda: q in seg, 60)
            evals += 1
            if st != "ok" or v is not True:
                fail(name, "on-curve-rational", "segment(%s) = %s is not `in` the rational segment (%s)" % (t, q, v if st == "ok" else st))
                break
            hist["on-curve-rational"] = hist.get("on-curve-rational", 0) + 1
        dx, dy = ctrl[-1][0] - ctrl[0][0], ctrl[-1][1] - ctrl[0][1]
        for t in RATIONAL_PARAMS[::5]:
            q = rg.bez_eval(ctrl, t)
            for off in (F(1, 10**4), F(-1, 100)):
                o = (q[0] - off * dy / max(abs(dx), abs(dy)), q[1] + off * dx / max(abs(dx), abs(dy)))
                st, v = call_limited(lambda: o in seg, 60)
                evals += 1
                if st != "ok" or v is not False:
                    fail(name, "off-curve-rational", "rational point at normal offset %s from segment(%s) is reported `in` the segment (%s)" % (off, t, v if st == "ok" else st))
                    break
    # point on curve and winding for regular float segments
    for name, ctrl in (regular_segments(p)[:1] if quick_only else regular_segments(p) + overshoot_segments(p) + scaled_segments(p)):
        seg = lib.PlanarCurve(ctrl)
        ref = [(rg.ex(x), rg.ex(y)) for x, y in ctrl]
        d1 = rg.bez_deriv(ref)
        nontrivial.append((p, name))
        for k in range(33):
            t = F(k, 32)
            q = rg.bez_eval(ref, t)
            qf = (float(q[0]), float(q[1]))
            st, v = call_limited(lambda: qf in seg, 60)
            evals += 1
            if st != "ok" or v is not True:
                fail(name, "on-curve", "segment(%s) = %s is not `in` the segment (%s)" % (t, qf, v if st == "ok" else st))
                break
            hist["on-curve"] = hist.get("on-curve", 0) + 1
            tx, ty = rg.bez_eval(d1, t)
            ln = math.hypot(float(tx), float(ty))
            for off in (1e-4, -1e-4, 1e-2, -1e-2):
                o = (qf[0] - off * float(ty) / ln, qf[1] + off * float(tx) / ln)
                # keep only offsets that are really farther than the tolerance from the curve
                if rg.point_near_curve((F(o[0]), F(o[1])), [ref], F(3, 10**6)):
                    continue
                st, v = call_limited(lambda: o in seg, 60)
                evals += 1
                if st != "ok" or v is not False:
                    fail(name, "off-curve", "point %s at distance %g from segment(%s) is reported `in` the segment" % (o, abs(off), t))
                    break
                hist["off-curve"] = hist.get("off-curve", 0) + 1
        # points beyond the two ends, along the tangents: off the curve although they may be
        # inside the control box
        for tpar, sign in ((F(0), -1), (F(1), 1)):
            q = rg.bez_eval(ref, tpar)
            tx, ty = rg.bez_eval(d1, tpar)
            ln = math.hypot(float(tx), float(ty))
            for dist in (1e-2, 0.1, 0.3):
                o = (float(q[0]) + sign * dist * float(tx) / ln, float(q[1]) + sign * dist * float(ty) / ln)
                if rg.point_near_curve((F(o[0]), F(o[1])), [ref], F(3, 10**6)):
                    continue
                st, v = call_limited(lambda: o in seg, 60)
                evals += 1
                if st != "ok" or v is not False:
                    fail(name, "beyond-end", "point %s at %g beyond the end t=%s of the segment is reported `in` it" % (o, dist, tpar))
                    break
                hist["beyond-end"] = hist.get("beyond-end", 0) + 1
        # after invert(): points of the curve are still `in` it, the area integral flips sign
        a0 = lib.IntegratePlanar.area(seg)
        seg.invert()
        for k in (1, 7, 12, 19, 31):
            q = rg.bez_eval(ref, F(k, 32))
            qf = (float(q[0]), float(q[1]))
            st, v = call_limited(lambda: qf in seg, 60)
            evals += 1
            if st != "ok" or v is not True:
                fail(name, "invert-on-curve", "after invert(), the curve point %s is not `in` the segment" % (qf,))
                break
        a1 = lib.IntegratePlanar.area(seg)
        if abs(float(a0) + float(a1)) > 1e-9 * max(1.0, abs(float(a0))):
            fail(name, "invert-area", "x dy integral %r before and %r after invert()" % (a0, a1))
        seg.invert()
        for i in range(9):
            for j in range(9):
                c = (F(-1, 2) + F(3 * i, 8), F(-3, 2) + F(4 * j, 8))
                if rg.point_near_curve(c, [ref], F(1, 1000)):
                    continue
                cf = (float(c[0]), float(c[1]))
                st, w = call_limited(lambda: lib.IntegratePlanar.winding_number(seg, center=cf), 60)
                evals += 1
                want = subtended(ref, c) / (2 * math.pi)
                if st != "ok" or abs(float(w) - want) > 1e-9:
                    fail(name, "winding", "winding_number about %s = %r, subtended angle/2pi = %r" % (cf, w if st == "ok" else st, want))
                    break
                hist["winding"] = hist.get("winding", 0) + 1
            else:
                continue
            break
    seen, out = set(), []
    for v in viols:
        if v["case_id"] not in seen:
            seen.add(v["case_id"])
            out.append(v)
    return {"violations": out, "evals": evals, "nontrivial": nontrivial, "hist": hist, "sample": {"degree": p, "polygons": [n for n, _ in polygons(p)][:6]}}


SEQUENCE = [1, 2, 3, 4, 5, 6, 5, 4, 3, 2, 1, 4, 2, 6, 1, 3, 5]


def run_case(spec):
    """One degree (all polygons) or, for the 'sequence' case, a walk through the degrees in
    one process: class-level memo tables keyed by degree must not leak between degrees."""
    if "sequence" not in spec:
        return _run_degree(spec)
    out = {"violations": [], "evals": 0, "nontrivial": [], "hist": {}, "sample": {"sequence": SEQUENCE}}
    for step, p in enumerate(SEQUENCE):
        r = _run_degree({"id": spec["id"], "degree": p, "sequence_step": step})
        for v in r["violations"]:
            v["case_id"] = "in sequence %s (step %d): %s" % (SEQUENCE[: step + 1], step, v["case_id"])
            v["replay"] = {"id": "replay:sequence", "sequence": True}
            out["violations"].append(v)
        out["evals"] += r["evals"]
        out["nontrivial"] += [("seq", step) + tuple(k) for k in r["nontrivial"]]
        for k, n in r["hist"].items():
            out["hist"][k] = out["hist"].get(k, 0) + n
        if out["violations"]:
            break
    return out


def finalize(results, cov):
    h = cov["outcome_histogram"]
    return ["vacuity: %s empty" % k for k in ("on-curve", "off-curve", "winding") if not h.get(k)]
