"""C12 Results do not depend on position, orientation or unit of length.

Inputs x finite configuration alphabet: every operand pair is mapped by each of 60
similarity maps (3 translations x 4 angles x 5 scales, applied by the reference to the
control points BEFORE construction; lattice-preserving maps exactly in Fractions) and the
real operators / queries on the mapped operands are compared with the reference answer for
the unmapped pair, point by point."""
from fractions import Fraction as F
import math

from .. import alphabets as al
from .. import opcheck as oc
from .. import progs
from .. import refgeo as rg
from ..runner import call_limited, exc_str

ID = "C12"
LEVEL = "exploration"
RULE = (
    "pairs: 13 polygon pairs (crossing 2..8 times, nested, disjoint, unbounded operand, hollow/two-component operands, a plate with a 1% tab crossed by a small chip) and 9 curved "
    "pairs; maps T = translate o rotate o scale with translations {0, (1e3,-2e3), (1e6,1e6)}, angles {0, 90, 30, 137 deg}, scale "
    "factors {1e-3, 1e-2, 1, 1e3, 1e5} (60 maps; angle 0/90 maps are applied exactly in Fractions to integer data). For each (pair, "
    "map): T(A) op T(B) for op in | & - ^ and ~T(A) on the real code; membership of T(w) in the result for every arrangement-face "
    "witness w of the unmapped pair (curved: 21x21 grid with clearance) must equal the reference membership of w in A op B; same kind "
    "as at T = identity; area = s^2 x area at identity (rel 1e-6); T(B) in T(A) iff B subset of A; T(p) in T(A) iff p in A, also for points at 1e-2*size (and 1e-3*size for scale >= 1) on both sides "
    "of every second curved arc (the sagitta band); T(p) for p at t=1/4,1/2,3/4 (arcs: also 1/7,3/8,5/9,6/7,1/50) of EVERY edge/arc is in the closed shape, not in the open one, and `in` the boundary curve; two curved pairs share arcs (a half disc cut from its circle). "
    "non-trivial = boundaries cross; distinct = (pair, map, operator)."
)
ASSUMPTIONS = [
    "non lattice-preserving maps are applied in floats to the control points; their witnesses keep clearance 1e-3*size",
    "the area at T = identity is the library's own (validated by C01/C05)",
]
CASE_TIMEOUT = 3000

L = progs.L
POLY_PAIRS = [
    ("sqA,sqB", L("P.sqA#int"), L("P.sqB#int")),
    ("sqA,triA", L("P.sqA#int"), L("P.triA#int")),
    ("bar,dia", L("P.bar#int"), L("P.dia#int")),
    ("dia,L", L("P.dia#int"), L("P.L#int")),
    ("U,bar", L("P.U#int"), L("P.bar#int")),
    ("big,inner", L("P.big#int"), L("P.inner#int")),
    ("inner,far", L("P.inner#int"), L("P.far#int")),
    ("sqA@cw,triA", L("P.sqA#int@cw"), L("P.triA#int")),
    ("triA@cw,bar@cw", L("P.triA#int@cw"), L("P.bar#int@cw")),
    ("hollow,dia", ["PC", "hollow", "int"], L("P.dia#int")),
    ("two,sqA", ["PC", "two", "int"], L("P.sqA#int")),
    ("xtwo,L", ["PC", "xtwo", "int"], L("P.L#int")),
    # fine detail: a unit plate with a 0.02 x 0.01 tab crossed by a 0.01 x 0.03 chip (short edges cross)
    (
        "tab,chip",
        ["V", [[0, 0], [1, 0], [1, "1/2"], ["51/50", "1/2"], ["51/50", "51/100"], [1, "51/100"], [1, 1], [0, 1]]],
        ["V", [["201/200", "49/100"], ["203/200", "49/100"], ["203/200", "13/25"], ["201/200", "13/25"]]],
    ),
]
CURVED_PAIRS = [
    ("c16,c16b", L("Q.c16"), L("Q.c16b")),
    ("c8,fsq", L("Q.c8"), L("Q.fsq")),
    ("c4,ftri", L("Q.c4"), L("Q.ftri")),
    ("lens,fbar", L("Q.lens"), L("Q.fbar")),
    ("c16,c8s", L("Q.c16"), L("Q.c8s")),
    ("rsq,c8", L("Q.rsq"), L("Q.c8")),
    # operands that SHARE arcs (B is a half disc cut from A by a chord)
    ("c8,halfc8", L("Q.c8"), L("Q.halfc8")),
    ("c16,halfc16", L("Q.c16"), L("Q.halfc16")),
    # a boundary made of one strongly bent cubic segment (teardrop) and a far disc: nothing
    # crosses, the pair is there for the point / boundary-point / containment queries
    ("tear,c8far", L("Q.tear"), L("Q.c8far")),
]
CURVED_SUBSET = {"c16,c8s": True, "c8,halfc8": True, "c16,halfc16": True}
TRANSLATIONS = [(0, 0), (1000, -2000), (10**6, 10**6)]
ANGLES = [0, 90, 30, 137]
SCALES = ["1/1000", "1/100", "1", "1000", "100000"]


def maps(tier, seed, curved=False):
    out = []
    k = 0
    for tr in TRANSLATIONS:
        for ang in ANGLES:
            for sc in SCALES:
                if tier == "thorough" or k % 3 == seed % 3 or (tr == (0, 0) and ang == 0):
                    out.append((tr, ang, sc))
                k += 1
    return out


def map_name(m):
    return "T(move=%s,rot=%s,scale=%s)" % (m[0], m[1], m[2])


def make_map(m, data_exact):
    """Returns (fn on exact points -> point in the type handed to the library, exact flag,
    s as Fraction)."""
    tr, ang, sc = m
    s = F(sc)
    exact = data_exact and ang in (0, 90)
    if ang in (0, 90):
        c, sn = (F(1), F(0)) if ang == 0 else (F(0), F(1))
    else:
        c, sn = F(math.cos(math.radians(ang))), F(math.sin(math.radians(ang)))

    def fn(p):
        x, y = p
        X = s * (c * x - sn * y) + tr[0]
        Y = s * (sn * x + c * y) + tr[1]
        return (X, Y)

    return fn, exact, s


def build_mapped(e, fn, exact):
    """Library shape for expression leaf e with control points mapped by fn."""
    from .. import lib

    reg = al.model_eval(e)

    def conv(p):
        q = fn(p)
        if exact:
            return (q[0], q[1])
        return (float(q[0]), float(q[1]))

    def simple(r):
        segs = [[conv(p) for p in s] for s in r.curve.segs]
        return lib.SimpleShape(lib.JordanCurve.from_ctrlpoints(segs))

    def rec(r):
        if r.kind == "simple":
            return simple(r)
        subs = [rec(c) for c in r.children]
        return lib.ConnectedShape(subs) if r.kind == "and" else lib.DisjointShape(subs)

    return rec(reg)


def cases(tier, seed):
    specs = []
    for name, a, b in POLY_PAIRS:
        for m in maps(tier, seed):
            specs.append({"id": "%s %s" % (name, map_name(m)), "pair": name, "map": [list(m[0]), m[1], m[2]], "cost": 2})
    cp = CURVED_PAIRS if tier == "thorough" else CURVED_PAIRS[:3] + CURVED_PAIRS[6:7] + CURVED_PAIRS[8:9]
    for name, a, b in cp:
        for m in maps(tier, seed):
            specs.append({"id": "%s %s" % (name, map_name(m)), "pair": name, "map": [list(m[0]), m[1], m[2]], "cost": 30})
    return specs


_BASE = {}


def base_results(name, ea, eb):
    """Kinds and areas at T = identity (library)."""
    if name in _BASE:
        return _BASE[name]
    out = {}
    for op in ("|", "&", "-", "^", "~"):
        e = ["~", ea] if op == "~" else [op, ea, eb]
        st, R = oc.run_expr(e, 180)
        if st != "ok":
            out[op] = None
        else:
            out[op] = (rg.kind_of(R), float(R) if rg.kind_of(R) not in ("EmptyShape", "WholeShape") else None)
    _BASE[name] = out
    return out


def run_case(spec):
    name = spec["pair"]
    m = (tuple(spec["map"][0]), spec["map"][1], spec["map"][2])
    pairs = {n: (a, b) for n, a, b in POLY_PAIRS + CURVED_PAIRS}
    ea, eb = pairs[name]
    curved = name in [n for n, _, _ in CURVED_PAIRS]
    ra, rb = al.model_eval(ea), al.model_eval(eb)
    curves = ra.curves() + rb.curves()
    size = max(c.size() for c in curves)
    fn, exact, s = make_map(m, not curved)
    viols, hist, nontrivial = [], {}, []
    evals = 0
    mid = "%s %s" % (name, map_name(m))
    rep = dict(spec, id="replay:" + mid)

    def fail(tag, msg):
        viols.append({"case_id": "%s :: %s" % (mid, tag), "what": msg, "replay": rep})

    # witnesses of the unmapped pair
    if not curved:
        wits = rg.witnesses_for(curves)
        if not exact:
            wits = [w for w in wits if not any(c.near(w, size / 1000) for c in curves)]
    else:
        bx = (min(c.box()[0] for c in curves), min(c.box()[1] for c in curves), max(c.box()[2] for c in curves), max(c.box()[3] for c in curves))
        wits = []
        for i in range(21):
            for j in range(21):
                w = (bx[0] + (bx[2] - bx[0]) * F(2 * i - 1, 38) + size / 977, bx[1] + (bx[3] - bx[1]) * F(2 * j - 1, 38) + size / 1013)
                if not any(c.near(w, size * 3 / 100) for c in curves):
                    wits.append(w)
    ncross = sum(len(rg.poly_crossings(a, b)) for a in ra.curves() for b in rb.curves()) if not curved else 1
    base = base_results(name, ea, eb)

    def img(w):
        q = fn(w)
        return q if exact else (float(q[0]), float(q[1]))

    for op in ("|", "&", "-", "^", "~"):
        A, B = build_mapped(ea, fn, exact), build_mapped(eb, fn, exact)
        model = rg.r_not(ra) if op == "~" else rg.MODEL_OPS[op](ra, rb)
        call = {"|": lambda: A | B, "&": lambda: A & B, "-": lambda: A - B, "^": lambda: A ^ B, "~": lambda: ~A}[op]
        st, R = call_limited(call, 300 if curved else 90)
        evals += 1
        cid = "T(A) %s T(B)" % op if op != "~" else "~T(A)"
        if ncross:
            nontrivial.append((mid, op))
        if st != "ok":
            fail(cid + " noresult", "hangs" if st == "timeout" else "raises " + exc_str(R))
            continue
        kind = rg.kind_of(R)
        hist["result:" + kind] = hist.get("result:" + kind, 0) + 1
        if base[op] is not None:
            if base[op][0] != kind:
                fail(cid + " kind", "a %s, at T = identity a %s" % (kind, base[op][0]))
            elif base[op][1] is not None:
                want = base[op][1] * float(s) ** 2
                got = float(R)
                if abs(got - want) > 1e-6 * abs(want):
                    fail(cid + " area", "area %r, s^2 x area at identity = %r" % (got, want))
        bad = 0
        for w in wits:
            exp = model.contains(w)
            if exp == rg.ON:
                continue
            q = img(w)
            st, got = call_limited(lambda: q in R, 60)
            if st != "ok" or bool(got) != (exp == rg.IN):
                fail(cid + " membership", "T(w) in result is %r for w = %s, w is %s A %s B" % (got if st == "ok" else st, oc.fmt_pt(w), exp, op))
                break
    # containment queries
    A, B = build_mapped(ea, fn, exact), build_mapped(eb, fn, exact)
    if not curved:
        truth = all(not (rb.contains(w) == rg.IN and ra.contains(w) == rg.OUT) for w in rg.witnesses_for(curves))
        st, got = call_limited(lambda: B in A, 120)
        evals += 1
        if st != "ok" or bool(got) != truth:
            fail("T(B) in T(A)", "%r, B is%s a subset of A" % (got if st == "ok" else st, "" if truth else " not"))
    else:
        truth = CURVED_SUBSET.get(name, False)
        st, got = call_limited(lambda: B in A, 300)
        evals += 1
        if st != "ok" or bool(got) != truth:
            fail("T(B) in T(A)", "%r, B is%s a subset of A" % (got if st == "ok" else st, "" if truth else " not"))
    # boundary points: T(p) for p exactly on an edge / arc is on the boundary of T(S) up to the
    # rounding of the map (<= 1e-9, the library's tolerance is 1e-6): in the closed shape, not
    # in the open one, `in` the boundary curve
    for who, reg, S in (("A", ra, A), ("B", rb, B)):
        done = False
        for ci, cv in enumerate(reg.curves()):
            for si, sg in enumerate(cv.segs):
                # (on curved segments also parameters that are not start values of the library's projection)
                for t in (F(1, 4), F(1, 2), F(3, 4)) + ((F(1, 7), F(3, 8), F(5, 9), F(6, 7), F(1, 50)) if len(sg) > 2 else ()):
                    q = img(rg.bez_eval(sg, t))
                    for qn, call, want in (
                        ("in", lambda: q in S, True),
                        ("contains_point(False)", lambda: S.contains_point(q, False), False),
                        ("in curve", lambda: any(q in j for j in rg.all_jordans(S)), True),
                    ):
                        st, got = call_limited(call, 60)
                        evals += 1
                        hist["boundary-points"] = hist.get("boundary-points", 0) + 1
                        if st != "ok" or bool(got) != want:
                            fail("T(p) %s T(%s) boundary" % (qn, who), "%r for p = segment %d of curve %d at t=%s" % (got if st == "ok" else st, si, ci, t))
                            done = True
                            break
                    if done:
                        break
                if done:
                    break
            if done:
                break
    for w in wits[:: max(1, len(wits) // 25)]:
        exp = ra.contains(w)
        if exp == rg.ON:
            continue
        q = img(w)
        st, got = call_limited(lambda: q in A, 60)
        evals += 1
        if st != "ok" or bool(got) != (exp == rg.IN):
            fail("T(p) in T(A)", "%r for p = %s which is %s A" % (got if st == "ok" else st, oc.fmt_pt(w), exp))
            break
    # sagitta band of curved boundaries: points just inside / outside every second arc
    if curved:
        offs = (F(1, 100), F(1, 1000)) if s >= 1 else (F(1, 100),)
        for who, reg, build_e in (("A", ra, ea), ("B", rb, eb)):
            S = build_mapped(build_e, fn, exact)
            done = False
            for cv in reg.curves():
                for si, sg in enumerate(cv.segs):
                    if len(sg) == 2 or si % 2:
                        continue
                    d1 = rg.bez_deriv(sg)
                    for t in (F(1, 4), F(1, 2), F(3, 4)):
                        p0 = rg.bez_eval(sg, t)
                        tx, ty = rg.bez_eval(d1, t)
                        ln = F(int((float(tx) ** 2 + float(ty) ** 2) ** 0.5 * 10**6) or 1, 10**6)
                        for off in offs:
                            for sgn in (1, -1):
                                w = (p0[0] - sgn * off * size * ty / ln, p0[1] + sgn * off * size * tx / ln)
                                exp = reg.contains(w)
                                if exp == rg.ON or reg.near_boundary(w, off * size / 2):
                                    continue
                                q = img(w)
                                st, got = call_limited(lambda: q in S, 60)
                                evals += 1
                                hist["band-points"] = hist.get("band-points", 0) + 1
                                if st != "ok" or bool(got) != (exp == rg.IN):
                                    fail("T(p) in T(%s) band" % who, "%r for p = %s at %s*size from an arc, p is %s %s" % (got if st == "ok" else st, oc.fmt_pt(w), float(off), exp, who))
                                    done = True
                                    break
                            if done:
                                break
                        if done:
                            break
                    if done:
                        break
                if done:
                    break
    hist["map-exact" if exact else "map-float"] = 1
    return {"violations": viols, "evals": evals, "nontrivial": nontrivial, "hist": hist, "sample": {"pair": name, "map": map_name(m), "witnesses": len(wits)}}


def finalize(results, cov):
    h = cov["outcome_histogram"]
    return ["vacuity: %s empty" % k for k in ("map-exact", "map-float", "result:DisjointShape", "result:ConnectedShape") if not h.get(k)]
