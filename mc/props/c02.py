"""C02 Point membership is geometric truth, with the documented boundary rule.

Exhaustive over a finite shape x point alphabet; the reference membership is exact for
polygons (winding number by edge crossings) and by adaptive subdivision for curved
boundaries (mc/refgeo.py)."""
from fractions import Fraction as F

from .. import alphabets as al
from .. import opcheck as oc
from .. import progs
from .. import refgeo as rg
from ..runner import call_limited, exc_str

ID = "C02"
LEVEL = "exploration"
RULE = (
    "shapes: all lattice triangles in {0..3}^2 and lattice quadrilaterals in {0,1,2}^2 (sliced in the quick tier), "
    "the P and PC alphabets (int/Fraction/float, both orientations, with holes, several components, unbounded), "
    "the curved Q alphabet, curved composites, curved shapes scaled by 1/1024 and 1024, cubic-bounded shapes built at 4 far positions on every side of the axes, Empty, Whole. points per shape: one witness per face of the "
    "arrangement of its supporting lines, all lattice points of its box +-2, every vertex, edge points at "
    "t=1/4,1/2,3/4, points at normal offsets +-{1e-4,1e-3,1e-2}*size from every edge/arc at t=1/8..7/8 (the sagitta band "
    "of curved segments), far points. queries: `p in S`, contains_point(p, True/False), `p in curve`. "
    "IN => True, OUT => False, ON => the flag (ON is judged for exact polygon boundary points and for constructed boundary points segment(t) of curved/float shapes). non-trivial = point within the shape's box; distinct = (shape, point)."
)
ASSUMPTIONS = [
    "points closer than max(1e-4*size, 2e-6) to a boundary (other than exact boundary points of polygons) are not judged: the library's own on-curve tolerance is 1e-6 absolute",
    "curved reference winding number by subdivision; ON when within 1e-9*size",
]
CASE_TIMEOUT = 900


def cases(tier, seed):
    fam = []
    for i in range(len(al.T3)):
        if tier == "thorough" or i % 12 == seed % 12:
            fam.append(["L", "T3.%d#int" % i])
            fam.append(["L", "T3.%d#float@cw" % i])
    for i in range(len(al.Q3())):
        if tier == "thorough" or i % 6 == seed % 6:
            fam.append(["L", "Q3.%d#frac" % i])
            fam.append(["L", "Q3.%d#int@cw" % i])
    vs = ("int", "frac", "float") if tier == "thorough" else ("int", "float")
    for v in vs:
        fam += progs.p_shapes(v, None if tier == "thorough" else progs.QUICK_P + ["U", "big"])
        fam += progs.pc_shapes(v)
    qn = (al.Q_ORDER if tier == "thorough" else ["c16", "c4", "c5", "lens", "blob", "rsq", "scub", "dblh"]) + ["tear", "tearg"]
    for q in qn:
        fam.append(["L", "Q." + q])
        fam.append(["L", "Q." + q + "@cw"])
    # generic affine images (nothing axis-aligned, nothing centred at the origin) and split shapes
    for q in (al.Q_ORDER if tier == "thorough" else ["c8", "blob", "scub", "rsq"]):
        fam.append(["G", "Q." + q])
    fam += [["SP", ["L", "P.L#int"]], ["SP", ["L", "Q.c8@cw"]], ["SP", ["PC", "hollow", "float"]]]
    # other units of length: the same drawings 1024 times smaller / larger (powers of two: exact)
    fam += [["SCL", "Q.c8", "1/1024"], ["SCL", "Q.blob", "1/1024"], ["SCL", "Q.rsq", "1/1024"], ["SCL", "Q.tear", "1/1024"], ["SCL", "Q.scub", "1/1024"], ["SCL", "Q.c16", "1024"], ["SCL", "Q.mixg", "1024"]]
    if tier == "thorough":
        fam += [["SCL", "Q." + q, f] for q in ("lens", "scub", "c5", "ftri") for f in ("1/1024", "1024")]
    # other positions: cubic-bounded shapes built fresh on every side of the axes (dyadic offsets: exact)
    far = [(-12.0, 5.0), (-40.0, -7.0), (300.0, 40.0), (7.0, -250.0)]
    for q in (["blob", "scub", "tear", "dblh"] if tier == "thorough" else ["blob", "scub", "tear"]):
        for k, (dx, dy) in enumerate(far):
            fam.append(["TR", "Q." + q + ("@cw" if k % 2 else ""), dx, dy])
    fam += [["CQ", "ringc"], ["CQ", "twoc"], ["CQ", "xringc"], ["E"], ["W"]]
    specs = []
    for n in range(0, len(fam), 6):
        chunk = fam[n : n + 6]
        specs.append({"id": "pts:%d:%s" % (n, name(chunk[0])), "shapes": chunk})
    return specs


def name(e):
    return al.expr_id(e)


def build(e):
    from . import c04

    return c04.build(e)


def point_alphabet(reg, curves, is_float):
    """Returns list of (tag, point) with exact Fraction coordinates."""
    pts = []
    if not curves:
        return [("origin", (F(0), F(0))), ("far", (F(10**6), F(-(10**6)))), ("frac", (F(1, 3), F(2, 7)))]
    size = max(c.size() for c in curves)
    x0 = min(c.box()[0] for c in curves)
    y0 = min(c.box()[1] for c in curves)
    x1 = max(c.box()[2] for c in curves)
    y1 = max(c.box()[3] for c in curves)
    polyc = [c for c in curves if c.is_poly]
    if polyc and len(polyc) == len(curves):
        for w in rg.witnesses_for(curves):
            pts.append(("face", w))
    # lattice of the box +-2 cells (unit = size/8 for non-lattice data)
    unit = F(1) if all(p[0].denominator == 1 and p[1].denominator == 1 for c in curves for s in c.segs for p in s) else size / 8
    nx = int((x1 - x0) / unit) + 1
    ny = int((y1 - y0) / unit) + 1
    if nx * ny <= 1200:
        for i in range(-2, nx + 3):
            for j in range(-2, ny + 3):
                pts.append(("lattice", (x0 + i * unit, y0 + j * unit)))
    for c in curves:
        for s in c.segs:
            pts.append(("vertex", s[0]))
            for t in (F(1, 4), F(1, 2), F(3, 4)):
                pts.append(("edge", rg.bez_eval(s, t)))
            d = rg.bez_deriv(s)
            for k in range(1, 8):
                t = F(k, 8)
                p = rg.bez_eval(s, t)
                tx, ty = rg.bez_eval(d, t)
                # rational normal direction of roughly unit length
                ln = F(int((float(tx) ** 2 + float(ty) ** 2) ** 0.5 * 10**6) or 1, 10**6)
                nxr, nyr = -ty / ln, tx / ln
                for off in (F(1, 10**4), F(1, 10**3), F(1, 10**2)):
                    for sg in (1, -1):
                        pts.append(("offset%g" % float(off), (p[0] + sg * off * size * nxr, p[1] + sg * off * size * nyr)))
    for fx, fy in ((10**3, 10**3), (-(10**3), 5), (10**6, -(10**6)), (0, -(10**6))):
        pts.append(("far", (x0 + fx * size, y0 + fy * size)))
    if is_float:
        # the library receives floats: use points that are exactly representable
        pts = [(tag, (F(float(p[0])), F(float(p[1])))) for tag, p in pts]
    return pts


def run_case(spec):
    hist, viols, nontrivial = {}, [], []
    evals = 0
    for e in spec["shapes"]:
        S = build(e)
        sid = name(e)
        reg = rg.interpret(S)
        curves = reg.curves()
        is_float = any(rg.typecode(p._x) not in ("i", "F") for j in rg.all_jordans(S) for sg in j.segments for p in sg.ctrlpoints)
        size = max([c.size() for c in curves] + [F(0)]) or F(1)
        polygonal = all(c.is_poly for c in curves)
        pts = point_alphabet(reg, curves, is_float)
        seen = set()
        for tag, p in pts:
            if p in seen:
                continue
            seen.add(p)
            truth = reg.contains(p)
            if truth != rg.ON:
                # clearance: unjudged when closer than 1e-4*size (x0.5 safety) unless exact polygon
                if reg.near_boundary(p, max(size * F(1, 20000), F(2, 10**6))):
                    hist["skipped-too-close"] = hist.get("skipped-too-close", 0) + 1
                    continue
            elif (not polygonal or is_float) and tag not in ("vertex", "edge"):
                # ON for curved/float data means 'cannot be separated': judged only for the
                # points constructed ON the boundary (vertices, segment(t) at t=1/4,1/2,3/4:
                # within 1e-15*size of it after rounding, the library's tolerance is 1e-6)
                hist["skipped-on-inexact"] = hist.get("skipped-on-inexact", 0) + 1
                continue
            q = (float(p[0]), float(p[1])) if is_float else p
            evals += 1
            hist[truth] = hist.get(truth, 0) + 1
            if curves and rg.in_bbox(p, (min(c.box()[0] for c in curves), min(c.box()[1] for c in curves), max(c.box()[2] for c in curves), max(c.box()[3] for c in curves))):
                nontrivial.append((sid, str(p)))
            pid = "%s @ %s" % (sid, oc.fmt_pt(p))
            rep = {"id": "replay:" + pid, "shapes": [e]}
            want_closed = truth in (rg.IN, rg.ON)
            want_open = truth == rg.IN
            kind = rg.kind_of(S)
            queries = [("in", lambda: q in S, want_closed)]
            if kind not in ("EmptyShape", "WholeShape"):
                queries += [
                    ("contains_point(True)", lambda: S.contains_point(q, True), want_closed),
                    ("contains_point(False)", lambda: S.contains_point(q, False), want_open),
                ]
            for qn, fn, want in queries:
                st, got = call_limited(fn, 30)
                if st != "ok":
                    viols.append({"case_id": "%s :: %s noresult" % (pid, qn), "what": "hangs" if st == "timeout" else "raises " + exc_str(got), "replay": rep})
                    continue
                if not isinstance(got, (bool,)) and type(got).__name__ != "bool_":
                    viols.append({"case_id": "%s :: %s type" % (pid, qn), "what": "returned %r" % (got,), "replay": rep})
                if bool(got) != want:
                    viols.append({"case_id": "%s :: %s" % (pid, qn), "what": "%s is %r, the point is %s (%s point)" % (qn, bool(got), truth, tag), "replay": rep})
            # p in jordan: True on the curve, False when clearly off it
            for k, j in enumerate(rg.all_jordans(S)):
                c = curves[k] if k < len(curves) else rg.jordan_curve(j)
                onc = c.winding(p) is rg.ON
                if not onc and c.near(p, max(size * F(1, 20000), F(2, 10**6))):
                    continue
                st, got = call_limited(lambda: q in j, 30)
                evals += 1
                if st != "ok" or bool(got) != onc:
                    viols.append({"case_id": "%s :: in-curve%d" % (pid, k), "what": "`p in curve` is %r, the point is %s the curve" % (got if st == "ok" else st, "on" if onc else "off"), "replay": rep})
    return {"violations": viols, "evals": evals, "nontrivial": nontrivial, "hist": hist, "sample": {"shape": name(spec["shapes"][0])}}


def finalize(results, cov):
    h = cov["outcome_histogram"]
    return ["vacuity: no %s verdicts" % k for k in (rg.IN, rg.OUT, rg.ON) if not h.get(k)]
