"""C13 Rational input gives exact rational output.

Exhaustive over rational polygon alphabets (int, Fraction, int/Fraction mixed, a
denominator ladder straddling 10^9) x operators / intersection / split / integrals /
move / scale; the whole object graph of every result is walked; plus the interpreter
configuration axis (3.12 vs 3.11)."""
from fractions import Fraction as F
import json
import os
import subprocess
import sys

from .. import alphabets as al
from .. import opcheck as oc
from .. import progs
from .. import refgeo as rg
from ..runner import call_limited, exc_str, VERIF

ID = "C13"
LEVEL = "exploration"
RULE = (
    "rational polygon alphabets (P in int / Fraction(den 1) / int-Fraction mixed / x/3+1/7 / halves, one slice of "
    "the lattice-triangle pairs, the ladder x*(q+1)/q for q in 7, 1001, 100003, 10000019 whose exact crossing "
    "denominators straddle 10^9) x {| & - ^ ~, depth-2 programs, JordanCurve.intersection, split at rational nodes, "
    "integrals a+b<=6, move/scale by int and Fraction}: every constructor vertex with denominators <= 10^9 (leaves with denominators 999999937, 999999999, 10^9 exactly, and 10^9+7 where rounding by <= 1e-17 is admitted) must be stored unchanged; every stored coordinate, parameter and moment must be an "
    "int or a Fraction with int numerator/denominator; crossing parameters equal the exact values; every result vertex "
    "is exactly an operand vertex or an exact crossing point when that point's denominators are <= 10^9, else within "
    "1e-9 of it; the same program list under Python 3.11 gives byte-identical dumps. "
    "non-trivial = boundaries cross (a crossing point had to be computed); distinct = distinct expression/op."
)
ASSUMPTIONS = [
    "python3-vt (3.11.7, numpy 2.x) with a stub matplotlib and /venv's pure-Python pynurbs stands for 'Python 3.11'; if it cannot import, the axis is reported as not covered",
]
CASE_TIMEOUT = 900
LADDER = (7, 1001, 100003, 10000019)


def cases(tier, seed):
    specs = []
    names = ["sqA", "sqB", "triA", "bar", "dia", "L"] if tier == "quick" else al.P_ORDER
    variants = ["int", "fr1", "ifr", "frac", "half"] + ["q%d" % q for q in LADDER]
    for v in variants:
        # the ladder keeps the same six polygons in both tiers
        vn = ["sqA", "sqB", "triA", "bar", "dia", "L"] if v.startswith("q") else names
        shapes = progs.p_shapes(v, vn, both=(v in ("int", "frac")))
        for i, x in enumerate(shapes):
            specs.append({"id": "op:%s" % al.expr_id(x), "X": x, "Ys": [y for y in shapes if y != x]})
    tt = progs.pairs_tt(tier, seed, k=24)
    for n in range(0, len(tt), 30):
        chunk = tt[n : n + 30]
        specs.append({"id": "tt:%s,%s" % (chunk[0][0][1], chunk[0][1][1]), "pairs": [list(p) for p in chunk]})
    # unrelated three-digit denominators: exact crossing parameters with denominators ~1e16
    rnd = progs.p_shapes("rnd", ["sqA", "sqB", "triA", "bar", "dia", "L"], both=False)
    for x in rnd:
        specs.append({"id": "param:%s" % al.expr_id(x), "X": x, "Ys": [y for y in rnd if y != x], "only_inter": True})
    # a crossing whose parameter has a denominator > 1e9 while the point itself is small
    rect = ["V", [[0, 0], [4, 0], [4, 1], [0, 1]]]
    pent = ["V", [["300000003/300000002", "-1"], [3, -2], [5, "1/2"], [3, 3], ["300000003/300000002", 2]]]
    specs.append({"id": "param:targeted", "exprs": [[o, rect, pent] for o in progs.OPS4] + [[o, pent, rect] for o in progs.OPS4]})
    specs.append({"id": "param:targeted-inter", "X": rect, "Ys": [pent], "only_inter": True})
    for v in ("int", "frac", "q1001", "q100003"):
        for x, y, z in [("sqA", "triA", "bar"), ("sqB", "dia", "L"), ("triA", "sqB", "U")]:
            e = [progs.L("P.%s#%s" % (n, v)) for n in (x, y, z)]
            specs.append({"id": "d2:%s:%s,%s,%s" % (v, x, y, z), "exprs": progs.d2_exprs(*e)})
    for v in ("int", "frac", "q7", "q100003"):
        specs.append({"id": "single:" + v, "single": [progs.L("P.%s#%s" % (n, v)) for n in names] + [["PC", "hollow", v if v in ("int", "frac") else "int"]]})
    # coordinates whose denominators are exactly at, just below and just above the 10^9 limit
    edge = [progs.L("P.%s#q%d" % (n, q)) for q in (999999937, 999999999, 10**9, 10**9 + 7) for n in ("triA", "sqB", "L")]
    edge += [
        ["V", [["123456789/1000000000", "1/1000000000"], ["999999999/1000000000", "3/1000000000"], ["1/2", "700000001/1000000000"]]],
        ["V", [["-1/1000000000", "-1/999999999"], ["5/999999999", "-7/1000000000"], ["1/999999998", "9/1000000000"], ["-3/1000000000", "2/999999937"]]],
    ]
    specs.append({"id": "single:den1e9", "single": edge})
    specs.append({"id": "config:py311", "config": True})
    return specs


def bad_numbers(obj):
    """All stored numbers of a library object that are not int / well-formed Fraction."""
    bad = []

    def num(v, where):
        tc = rg.typecode(v)
        if tc not in ("i", "F"):
            bad.append("%s is %s %r" % (where, tc, v))

    for ji, j in enumerate(rg.all_jordans(obj)):
        for si, s in enumerate(j.segments):
            for pi, p in enumerate(s.ctrlpoints):
                num(p._x, "curve %d segment %d point %d x" % (ji, si, pi))
                num(p._y, "curve %d segment %d point %d y" % (ji, si, pi))
    return bad


def exact_candidates(curves):
    pts = {}
    for c in curves:
        for s in c.segs:
            pts[s[0]] = "vertex"
    for i in range(len(curves)):
        for j in range(i + 1, len(curves)):
            for x in rg.poly_crossings(curves[i], curves[j]):
                if x[4] is not None:
                    pts.setdefault(x[4], "crossing")
    return pts


LIM = 10**9


def vertex_provenance(R, cands):
    fails = []
    clist = list(cands)
    for j in rg.all_jordans(R):
        for s in j.segments:
            p = s.ctrlpoints[0]
            if rg.typecode(p._x) not in ("i", "F") or rg.typecode(p._y) not in ("i", "F"):
                continue  # reported by bad_numbers
            v = (rg.ex(p._x), rg.ex(p._y))
            if v in cands:
                continue
            near = [c for c in clist if abs(c[0] - v[0]) <= F(1, LIM) and abs(c[1] - v[1]) <= F(1, LIM)]
            if not near:
                fails.append("result vertex %s is neither an operand vertex nor a crossing point" % oc.fmt_pt(v))
            elif all(c[0].denominator <= LIM and c[1].denominator <= LIM for c in near):
                fails.append("result vertex %s differs from the exact point %s whose denominators are <= 10^9" % (oc.fmt_pt(v), oc.fmt_pt(near[0])))
    return fails[:2]


def spec_ladder(e):
    """Ladder leaves (denominators >= 1001): moments of operator results are not judged
    there; the exactness of moments on large denominators is judged on the leaves
    themselves (judge_single), where the known rounding defect is listed once per leaf."""
    return any(l[0] == "L" and "#q" in l[1] and int(l[1].split("#q")[1].split("@")[0]) > 7 for l in al.expr_leaves(e))


def judge_expr(e, hist, viols, nontrivial):
    eid = al.expr_id(e)
    leaves, sets, curves, poly = oc.leaves_info(e)
    if len(sets) > 1 and not rg.regions_general_position(sets):
        return "excluded"
    rep = {"id": "replay:" + eid, "exprs": [e]}
    st, R = oc.run_expr(e)
    if st != "ok":
        viols.append({"case_id": eid + " :: noresult", "what": "hangs" if st == "timeout" else "raises " + exc_str(R), "replay": rep})
        return
    cands = exact_candidates(curves)
    ncross = sum(1 for v in cands.values() if v == "crossing")
    big = sum(1 for c, v in cands.items() if v == "crossing" and (c[0].denominator > LIM or c[1].denominator > LIM))
    hist["crossing-den>1e9" if big else "crossing-den<=1e9"] = hist.get("crossing-den>1e9" if big else "crossing-den<=1e9", 0) + 1
    if ncross:
        nontrivial.append(eid)
    bad = bad_numbers(R)
    if bad:
        viols.append({"case_id": eid + " :: type", "what": bad[0], "replay": rep})
    for m in vertex_provenance(R, cands):
        viols.append({"case_id": eid + " :: vertex", "what": m, "replay": rep})
        break
    if rg.kind_of(R) not in ("EmptyShape", "WholeShape") and not bad and not spec_ladder(e):
        from .. import lib

        for a, b in ((0, 0), (1, 0), (0, 1), (1, 1), (2, 0), (0, 3)):
            st, m = call_limited(lambda: lib.IntegrateShape.polynomial(R, a, b), 60)
            if st != "ok":
                viols.append({"case_id": eid + " :: moment-noresult", "what": str(m), "replay": rep})
                break
            if rg.typecode(m) not in ("i", "F") or rg.ex(m) != oc.ref_moment(R, a, b):
                viols.append({"case_id": eid + " :: moment", "what": "moment(%d,%d) = %r (%s), exact %s" % (a, b, m, rg.typecode(m), oc.ref_moment(R, a, b)), "replay": rep})
                break


def judge_intersection(x, y, hist, viols, nontrivial):
    from .. import lib

    pid = "%s x %s" % (al.expr_id(x), al.expr_id(y))
    rep = {"id": "replay:" + pid, "X": x, "Ys": [y], "only_inter": True}
    A, B = al.lib_eval(x), al.lib_eval(y)
    ja, jb = A.jordans[0], B.jordans[0]
    ca, cb = rg.jordan_curve(ja), rg.jordan_curve(jb)
    st, inter = call_limited(lambda: ja.intersection(jb, equal_beziers=False), 60)
    if st != "ok":
        viols.append({"case_id": pid + " :: intersection-noresult", "what": str(inter), "replay": rep})
        return
    exact = {}
    for i, j, t, u, pt in rg.poly_crossings(ca, cb):
        exact[(i, j)] = (t, u)
    for a, b, u, v in inter:
        if u is None:
            continue
        if rg.typecode(u) not in ("i", "F") or rg.typecode(v) not in ("i", "F"):
            viols.append({"case_id": pid + " :: param-type", "what": "parameters (%r, %r) of tuple (%d,%d) are not rational" % (u, v, a, b), "replay": rep})
            return
        want = exact.get((a, b))
        if want is None or (rg.ex(u), rg.ex(v)) != want:
            viols.append({"case_id": pid + " :: param-value", "what": "tuple (%d,%d,%s,%s), exact parameters %s" % (a, b, u, v, want), "replay": rep})
            return
    if inter:
        nontrivial.append(pid)
    hist["intersections:%d" % min(len(inter), 9)] = hist.get("intersections:%d" % min(len(inter), 9), 0) + 1


def judge_single(e, hist, viols, nontrivial):
    from .. import lib

    sid = al.expr_id(e)
    rep = {"id": "replay:" + sid, "single": [e]}
    # stored unchanged: every vertex of the input data whose denominators are <= 10^9 is a
    # stored vertex, exactly
    S = al.lib_eval(e)
    data = {sg[0] for c in al.model_eval(e).curves() for sg in c.segs}
    have = {sg[0] for c in rg.interpret(S).curves() for sg in c.segs}
    small = {w for w in data if w[0].denominator <= LIM and w[1].denominator <= LIM}
    hist["stored<=1e9"] = hist.get("stored<=1e9", 0) + len(small)
    hist["stored>1e9"] = hist.get("stored>1e9", 0) + len(data) - len(small)
    if not small <= have:
        w = sorted(small - have)[0]
        viols.append({"case_id": sid + " :: stored", "what": "the vertex (%s, %s) given to the constructor (denominators <= 10^9) is not a stored vertex" % w, "replay": rep})
    for w in data - small:
        if not any(abs(h[0] - w[0]) <= F(1, 10**17) and abs(h[1] - w[1]) <= F(1, 10**17) for h in have):
            viols.append({"case_id": sid + " :: stored-rounded", "what": "the vertex (%s, %s) is stored farther than 1e-17 away" % w, "replay": rep})
            break
    # split at rational nodes
    j = S.jordans[0]
    orig = rg.jordan_curve(j)
    nseg = len(j.segments)
    idx = [0, 0, nseg - 1, 1]
    nodes = [F(1, 3), F(2, 3), F(1, 2), F(5, 7)]
    st, _ = call_limited(lambda: j.split(idx, nodes), 60)
    if st != "ok":
        viols.append({"case_id": sid + " :: split-noresult", "what": str(_), "replay": rep})
    else:
        bad = bad_numbers(S)
        if bad:
            viols.append({"case_id": sid + " :: split-type", "what": bad[0], "replay": rep})
        else:
            want = {rg.bez_eval(orig.segs[i], t) for i, t in zip(idx, nodes)}
            have = {s[0] for s in rg.jordan_curve(j).segs}
            small = {w for w in want if w[0].denominator <= LIM and w[1].denominator <= LIM}
            if not small <= have:
                viols.append({"case_id": sid + " :: split-point", "what": "junction points %s missing" % sorted(small - have)[:1], "replay": rep})
        nontrivial.append(sid + " split")
    # move / scale by rationals
    for tag, fn, img in (
        ("move(3,-2)", lambda s: s.move(3, -2), lambda p: (p[0] + 3, p[1] - 2)),
        ("move(1/3,2/7)", lambda s: s.move(F(1, 3), F(2, 7)), lambda p: (p[0] + F(1, 3), p[1] + F(2, 7))),
        ("scale(2,3)", lambda s: s.scale(2, 3), lambda p: (p[0] * 2, p[1] * 3)),
        ("scale(1/2,5/3)", lambda s: s.scale(F(1, 2), F(5, 3)), lambda p: (p[0] / 2, p[1] * F(5, 3))),
    ):
        S = al.lib_eval(e)
        before = [c.segs for c in rg.interpret(S).curves()]
        st, _ = call_limited(lambda: fn(S), 60)
        if st != "ok":
            viols.append({"case_id": "%s :: %s noresult" % (sid, tag), "what": str(_), "replay": rep})
            continue
        bad = bad_numbers(S)
        after = [c.segs for c in rg.interpret(S).curves()]
        want = [tuple(tuple(img(p) for p in s) for s in c) for c in before]
        small = all(q.denominator <= LIM for c in want for s in c for p in s for q in p)
        if bad:
            viols.append({"case_id": "%s :: %s type" % (sid, tag), "what": bad[0], "replay": rep})
        elif small and after != want:
            viols.append({"case_id": "%s :: %s value" % (sid, tag), "what": "coordinates are not the exact images", "replay": rep})
        nontrivial.append(sid + " " + tag)
    # integrals
    S = al.lib_eval(e)
    wrong = []
    for a in range(7):
        for b in range(7 - a):
            m = lib.IntegrateShape.polynomial(S, a, b)
            if rg.typecode(m) not in ("i", "F") or rg.ex(m) != oc.ref_moment(S, a, b):
                wrong.append((a, b, m))
    if wrong:
        # one finding per leaf: which moments are inexact, and the first of them
        a, b, m = wrong[0]
        ref = oc.ref_moment(S, a, b)
        viols.append({"case_id": "%s :: moments" % sid, "what": "moments %s are not the exact values of the stored polygon; moment(%d,%d) is %s (%s), off by %.3g relative" % ([(x, y) for x, y, _ in wrong], a, b, str(m)[:60], rg.typecode(m), float(abs(rg.ex(m) - ref) / abs(ref)) if rg.typecode(m) in ("i", "F") and ref else float("nan")), "replay": rep})
    hist["single"] = hist.get("single", 0) + 1


def run_config():
    env = dict(os.environ)
    env["PYTHONDONTWRITEBYTECODE"] = "1"
    env["PYTHONHASHSEED"] = "0"
    a = subprocess.run([sys.executable, "-m", "mc.dump_programs", "rational"], cwd=VERIF, env=env, capture_output=True, text=True, timeout=800)
    env2 = dict(env)
    env2["PYTHONPATH"] = os.path.join(VERIF, "stubs") + ":" + VERIF
    try:
        b = subprocess.run(["python3-vt", "-W", "ignore", "-m", "mc.dump_programs", "rational"], cwd=VERIF, env=env2, capture_output=True, text=True, timeout=800)
    except FileNotFoundError:
        return None, "python3-vt not found"
    if a.returncode != 0:
        raise RuntimeError("dump under %s failed: %s" % (sys.executable, a.stderr[-500:]))
    if b.returncode != 0:
        return None, "python 3.11 environment cannot run the library: " + b.stderr[-300:]
    return (a.stdout.splitlines(), b.stdout.splitlines()), None


def run_case(spec):
    hist, viols, nontrivial = {}, [], []
    evals = excluded = 0
    if spec.get("config"):
        res, why = run_config()
        if res is None:
            return {"violations": [], "evals": 0, "nontrivial": [], "hist": {"py311:not-covered": 1}, "caps": ["py311 axis not covered: " + why], "sample": why}
        la, lb = res
        hist["py311:programs"] = len(la)
        for x, y in zip(la, lb):
            evals += 1
            if x != y:
                ex = json.loads(x)["expr"]
                viols.append({"case_id": "py3.11 vs py3.12 :: " + ex, "what": "3.12: %s | 3.11: %s" % (x[:150], y[:150]), "replay": {"id": "replay:config", "config": True}})
        if len(la) != len(lb):
            viols.append({"case_id": "py3.11 vs py3.12 :: length", "what": "%d vs %d programs" % (len(la), len(lb)), "replay": {"id": "replay:config", "config": True}})
        nontrivial = ["py311:%d" % i for i in range(len(la))]
        return {"violations": viols, "evals": evals, "nontrivial": nontrivial, "hist": hist, "sample": json.loads(la[0])["expr"]}
    if "X" in spec:
        x = spec["X"]
        for y in spec["Ys"]:
            if not spec.get("only_inter"):
                for o in progs.OPS4:
                    r = judge_expr([o, x, y], hist, viols, nontrivial)
                    if r == "excluded":
                        excluded += 1
                    else:
                        evals += 1
            judge_intersection(x, y, hist, viols, nontrivial)
            evals += 1
        if not spec.get("only_inter"):
            judge_expr(["~", x], hist, viols, nontrivial)
    if "pairs" in spec:
        for x, y in spec["pairs"]:
            for o in progs.OPS4:
                r = judge_expr([o, x, y], hist, viols, nontrivial)
                if r == "excluded":
                    excluded += 1
                else:
                    evals += 1
    if "exprs" in spec:
        for e in spec["exprs"]:
            r = judge_expr(e, hist, viols, nontrivial)
            if r == "excluded":
                excluded += 1
            else:
                evals += 1
    if "single" in spec:
        for e in spec["single"]:
            judge_single(e, hist, viols, nontrivial)
            evals += 16
    return {"violations": viols, "evals": evals, "nontrivial": nontrivial, "hist": hist, "excluded": excluded, "sample": spec["id"]}


def finalize(results, cov):
    h = cov["outcome_histogram"]
    errs = []
    for k in ("crossing-den>1e9", "crossing-den<=1e9", "single", "stored<=1e9", "stored>1e9"):
        if not h.get(k):
            errs.append("vacuity: bucket %s empty" % k)
    return errs
