"""C09 move / rotate / scale transform the region exactly as the affine map does.

History explorer: all sequences (length <= 2 quick, <= 3 thorough) over an alphabet of 14
transformations on each shape of a kind/type alphabet; in every reached state the real
object's control points are compared with the reference image of the original control
points (Bezier curves are affine invariant, so this decides membership of T(p) for all p)."""
from fractions import Fraction as F
import math

from .. import alphabets as al
from .. import explore
from .. import opcheck as oc
from .. import progs
from .. import refgeo as rg
from ..runner import call_limited, exc_str

ID = "C09"
LEVEL = "model_checking"
RULE = (
    "per shape (P: sqA, triA, L, U cw; PC: hollow, two, xtwo, xhollow; each int / Fraction / float; curved: c8, lens, "
    "cubic blob, curved ring, cubics with a doubled and with a zero-length handle) breadth-first search over all sequences of length <= 2 (thorough 3) of 14 transformations "
    "(move by (3,-2), (1/3,2/7), (0.5,-1.25), (1e6,0), the tiny rational vector (1e-9,-1e-9), tuple form, Point2D form; scale by (2,3), (1/2,1/3), (0.5,2.0); rotate by pi/2, "
    "0.3, 90 deg, -37.5 deg), states de-duplicated on the full representation; invariant in every state: every control "
    "point equals the exact affine image of the original (exactly, with Fraction type, for rational data under "
    "move/scale; 1e-9 relative otherwise), junction sharing and orientation preserved, call returns the same object, "
    "moments of order <= 2 equal the reference moments of the image (hence area = |det| x area), T(p) in S iff p was "
    "in S on a 5x5 grid (depth 1), and the inverse sequence restores a shape == to the original."
)
ASSUMPTIONS = ["moments of rational shapes are compared exactly while every coordinate denominator is <= 1e7, and with the float tolerance (1e-8 area, 1e-6 higher moments; still of Fraction type) beyond: exact integrals next to the 1e-9 coordinate resolution are the subject of C13 (known finding F19)", "rotation reference uses the exact rational value of the float cos/sin the library computes with numpy"]
CASE_TIMEOUT = 1500

TRANSFORMS = [
    ["move", 3, -2],
    ["move", "1/3", "2/7"],
    ["move", 0.5, -1.25],
    ["move", 1000000.0, 0],
    ["move", "1/1000000000", "-1/1000000000"],
    ["movet", -2, 5],
    ["movep", "5/2", -1],
    ["scale", 2, 3],
    ["scale", "1/2", "1/3"],
    ["scale", 0.5, 2.0],
    ["rotate", "pi/2"],
    ["rotate", 0.3],
    ["rotdeg", 90],
    ["rotdeg", -37.5],
]


def tname(t):
    return "%s(%s)" % (t[0], ",".join(str(x) for x in t[1:]))


def num(v):
    if isinstance(v, str):
        if v == "pi/2":
            return math.pi / 2
        return F(v)
    return v


def is_rat(v):
    return isinstance(v, (int, F)) and not isinstance(v, bool)


def apply_lib(S, t):
    k = t[0]
    if k == "move":
        return S.move(num(t[1]), num(t[2]))
    if k == "movet":
        return S.move((num(t[1]), num(t[2])))
    if k == "movep":
        # the translation given as a Point2D object: it is an input and must come back unchanged
        from .. import lib

        v = lib.Point2D(num(t[1]), num(t[2]))
        r = S.move(v)
        if (rg.ex(v._x), rg.ex(v._y)) != (rg.ex(num(t[1])), rg.ex(num(t[2]))):
            raise AssertionError("move(Point2D) modified its argument: now (%s, %s)" % (v._x, v._y))
        return r
    if k == "scale":
        return S.scale(num(t[1]), num(t[2]))
    if k == "rotate":
        return S.rotate(num(t[1]))
    if k == "rotdeg":
        return S.rotate(num(t[1]), degrees=True)
    raise ValueError(t)


def inverse(t):
    k = t[0]
    if k in ("move", "movet", "movep"):
        return [k, neg(t[1]), neg(t[2])]
    if k == "scale":
        return ["scale", inv(t[1]), inv(t[2])]
    if k == "rotate":
        return ["rotate", -num(t[1])]
    return ["rotdeg", -t[1]]


def neg(v):
    v = num(v)
    return str(-v) if isinstance(v, F) else -v


def inv(v):
    v = num(v)
    if isinstance(v, F):
        return str(1 / v)
    if isinstance(v, int):
        return str(F(1, v))
    return 1.0 / v


def model_apply(pts, t):
    """pts: list of [x, y, xrat, yrat] (exact Fractions + 'stored as rational' flags)."""
    import numpy as np

    k = t[0]
    out = []
    if k in ("move", "movet", "movep"):
        vx, vy = num(t[1]), num(t[2])
        # Point2D(vx, vy) keeps both as given unless both are rational
        for x, y, xr, yr in pts:
            out.append([x + rg.ex(vx), y + rg.ex(vy), xr and is_rat(vx), yr and is_rat(vy)])
    elif k == "scale":
        sx, sy = num(t[1]), num(t[2])
        for x, y, xr, yr in pts:
            out.append([x * rg.ex(sx), y * rg.ex(sy), xr and is_rat(sx), yr and is_rat(sy)])
    else:
        ang = num(t[1])
        if k == "rotdeg":
            ang = ang * (np.pi / 180)
        c, s = rg.ex(float(np.cos(ang))), rg.ex(float(np.sin(ang)))
        for x, y, xr, yr in pts:
            out.append([c * x - s * y, s * x + c * y, False, False])
    return out


def shape_points(S):
    """Distinct Point2D objects of the shape in traversal order (each once)."""
    seen, out = set(), []
    for j in rg.all_jordans(S):
        for sg in j.segments:
            for p in sg.ctrlpoints:
                if id(p) not in seen:
                    seen.add(id(p))
                    out.append(p)
    return out


def sharing(S):
    ids = {}
    pat = []
    for j in rg.all_jordans(S):
        for sg in j.segments:
            pat.append(tuple(ids.setdefault(id(p), len(ids)) for p in sg.ctrlpoints))
    return tuple(pat)


def build_shape(e):
    from . import c04

    return c04.build(e)


def shapes(tier):
    out = []
    for v in ("int", "frac", "float"):
        out += [["L", "P.sqA#" + v], ["L", "P.triA#" + v], ["L", "P.L#" + v], ["L", "P.U#%s@cw" % v]]
        out += [["PC", n, v] for n in ("hollow", "two", "xtwo", "xhollow")]
        if v != "frac":
            out += [["PC", n, v] for n in ("holeisland", "ringfar")]  # a component with a hole next to another component
    out += [["L", "Q.c8"], ["L", "Q.lens@cw"], ["L", "Q.blob"], ["CQ", "ringc"], ["L", "Q.dblh"], ["L", "Q.zeroh@cw"]]
    return out


def cases(tier, seed):
    depth = 2 if tier == "quick" else 3
    return [{"id": "T:%s" % sname(e), "shape": e, "depth": depth} for e in shapes(tier)]


def sname(e):
    return "CQ." + e[1] if e[0] == "CQ" else al.expr_id(e)


def run_history(e, hist, check_inverse=True, deep=True):
    """Replays a transformation history on a fresh shape; returns (shape, failures)."""
    from .. import lib

    S = build_shape(e)
    pts0 = shape_points(S)
    model = [[rg.ex(p._x), rg.ex(p._y), rg.typecode(p._x) in ("i", "F"), rg.typecode(p._y) in ("i", "F")] for p in pts0]
    share0 = sharing(S)
    reg0 = rg.interpret(S)
    orient0 = [c.area() > 0 for c in reg0.curves()]
    fails = []
    for t in hist:
        st, ret = call_limited(lambda: apply_lib(S, t), 30)
        if st != "ok":
            return S, [("noresult", "%s %s" % (tname(t), "hangs" if st == "timeout" else "raises " + exc_str(ret)))]
        if ret is not S:
            fails.append(("return", "%s does not return the same object" % tname(t)))
        model = model_apply(model, t)
    pts = shape_points(S)
    if len(pts) != len(model) or sharing(S) != share0:
        fails.append(("sharing", "junction sharing pattern changed (%d distinct points, before %d)" % (len(pts), len(model))))
        return S, fails
    scale = max([abs(m[0]) for m in model] + [abs(m[1]) for m in model] + [F(1)])
    tol = scale / 10**9
    for p, (mx, my, xr, yr) in zip(pts, model):
        for got, want, rat, ax in ((p._x, mx, xr, "x"), (p._y, my, yr, "y")):
            if rat:
                if rg.typecode(got) not in ("i", "F") or rg.ex(got) != want:
                    fails.append(("exact", "%s = %r (%s) but the exact image is %s" % (ax, got, rg.typecode(got), want)))
                    return S, fails
            else:
                try:
                    bad = abs(rg.ex(got) - want) > tol
                except (TypeError, ValueError, OverflowError):
                    bad = True
                if bad:
                    fails.append(("image", "%s = %r but the image is %r" % (ax, got, float(want))))
                    return S, fails
    reg = rg.interpret(S)
    det_pos = True  # positive scale factors and rotations preserve orientation
    if [c.area() > 0 for c in reg.curves()] != orient0:
        fails.append(("orientation", "orientation of a boundary changed"))
    if deep:
        # moments against the reference image (built from the model points)
        rational = all(m[2] and m[3] for m in model) and reg.is_polygonal()
        for a, b in oc.MOMENTS:
            st, got = call_limited(lambda: lib.IntegrateShape.polynomial(S, a, b), 60)
            if st != "ok":
                fails.append(("moment-noresult", str(got)))
                break
            want = reg.boundary_moment(a, b)
            fine = (rational and max(q.denominator for c in reg.curves() for sg in c.segs for pt in sg for q in pt) <= 10**7)
            if fine:
                ok = rg.ex(got) == want
            elif rational:
                # coordinates near the library's 1e-9 coordinate resolution: the exactness of
                # integrals there is C13's subject (known finding F19); here |det| x area only
                # (temporaries are rounded to denominators <= 1e9, i.e. by up to 5e-10: the float tolerance applies)
                ok = rg.typecode(got) in ("i", "F") and abs(rg.ex(got) - want) <= (F(1, 10**8) if a + b == 0 else F(1, 10**6)) * max(abs(want), scale ** (a + b + 2) * F(1, 10**4))
            else:
                ok = abs(rg.ex(got) - want) <= (F(1, 10**8) if a + b == 0 else F(1, 10**6)) * max(abs(want), scale ** (a + b + 2) * F(1, 10**4))
            if not ok:
                fails.append(("moment", "moment(%d,%d) = %r, reference %r" % (a, b, got, float(want))))
                break
    if check_inverse and hist:
        for t in reversed(hist):
            st, ret = call_limited(lambda: apply_lib(S, inverse(t)), 30)
            if st != "ok":
                fails.append(("inverse-noresult", tname(inverse(t))))
                return S, fails
        S0 = build_shape(e)
        allrat = all(t[0] in ("move", "movet", "movep", "scale") and all(is_rat(num(x)) for x in t[1:]) for t in hist)
        p0 = shape_points(S0)
        sc0 = max([abs(rg.ex(p._x)) for p in p0] + [abs(rg.ex(p._y)) for p in p0] + [F(1)])
        for p, q in zip(shape_points(S), p0):
            dx, dy = abs(rg.ex(p._x) - rg.ex(q._x)), abs(rg.ex(p._y) - rg.ex(q._y))
            lim = 0 if (allrat and rg.typecode(q._x) in ("i", "F") and rg.typecode(q._y) in ("i", "F")) else max(scale, sc0) / 10**9
            if dx > lim or dy > lim:
                fails.append(("inverse", "after the inverse sequence a point is %s instead of %s" % (p, q)))
                break
    return S, fails


def run_case(spec):
    from .. import lib

    e = spec["shape"]
    depth = spec["depth"]
    sid = sname(e)
    evs = list(range(len(TRANSFORMS)))
    replay_hist = spec.get("history")
    viols, nontrivial = [], []
    hist_counts = {}
    curved = not rg.interpret(build_shape(e)).is_polygonal()

    def build(hist):
        ts = [TRANSFORMS[i] for i in hist]
        S, fails = run_history(e, ts, check_inverse=False, deep=False)
        return (S, fails, ts)

    def canon(state):
        return rg.rep_sig(state[0])

    def invariant(state, hist):
        S, fails, ts = state
        if not fails and hist:
            deep = (not curved) or len(hist) <= 2
            _, fails = run_history(e, ts, check_inverse=True, deep=deep)
            if len(hist) == 1 and not fails:
                fails = fails + membership_and_eq(e, ts)
        for tag, _ in fails:
            hist_counts["fail:" + tag] = hist_counts.get("fail:" + tag, 0) + 1
        return fails

    if replay_hist is not None:
        state = build(replay_hist)
        fails = invariant(state, replay_hist)
        res = {"states": 1, "transitions": len(replay_hist), "violations": [(replay_hist, t, m) for t, m in fails], "max_depth": len(replay_hist), "capped": False}
    else:
        res = explore.bfs(build, evs, canon, invariant, depth)
    seen = set()
    for h, tag, msg in res["violations"]:
        hid = "%s : %s :: %s" % (sid, " ; ".join(tname(TRANSFORMS[i]) for i in h), tag)
        if hid in seen:
            continue
        seen.add(hid)
        viols.append({"case_id": hid, "what": msg, "replay": {"id": "replay:" + hid, "shape": e, "depth": depth, "history": h}})
    hist_counts["max_depth:%d" % res["max_depth"]] = 1
    return {
        "violations": viols,
        "evals": res["transitions"],
        "nontrivial": ["%s:%d" % (sid, i) for i in range(res["states"])],
        "states": res["states"],
        "transitions": res["transitions"],
        "hist": hist_counts,
        "sample": {"shape": sid, "history": [tname(t) for t in TRANSFORMS[:3]], "states": res["states"]},
    }


def membership_and_eq(e, ts):
    """Depth 1: T(p) in T(S) iff p in S for a 5x5 grid of points with clearance, and the
    inverse restores a shape that the library itself calls == to the original."""
    fails = []
    S0 = build_shape(e)
    reg0 = rg.interpret(S0)
    curves = reg0.curves()
    size = max(c.size() for c in curves)
    bx = (min(c.box()[0] for c in curves), min(c.box()[1] for c in curves), max(c.box()[2] for c in curves), max(c.box()[3] for c in curves))
    S = build_shape(e)
    pts = []
    for i in range(5):
        for j in range(5):
            p = (bx[0] + (bx[2] - bx[0]) * F(2 * i - 1, 6), bx[1] + (bx[3] - bx[1]) * F(2 * j - 1, 6))
            if reg0.near_boundary(p, size / 100):
                continue
            pts.append(p)
    # the SAME object is asked before and after the transformation ("contains T(p) iff S contained p")
    for p in pts:
        q0 = (float(p[0]), float(p[1]))
        st, got = call_limited(lambda: q0 in S, 30)
        if st != "ok" or bool(got) != (reg0.contains(p) == rg.IN):
            fails.append(("membership-before", "p in S is %r for p = %s" % (got if st == "ok" else st, oc.fmt_pt(p))))
            return fails
    for t in ts:
        apply_lib(S, t)
    for p in pts:
        m = model_apply([[p[0], p[1], False, False]], ts[0])[0]
        q = (float(m[0]), float(m[1]))
        want = reg0.contains(p) == rg.IN
        st, got = call_limited(lambda: q in S, 30)
        if st != "ok" or bool(got) != want:
            fails.append(("membership", "T(p) in T(S) is %r for p = %s, p in S is %r" % (got if st == "ok" else st, oc.fmt_pt(p), want)))
            break
    for t in reversed(ts):
        apply_lib(S, inverse(t))
    st, eq = call_limited(lambda: S == S0, 120)
    if st != "ok" or eq is not True:
        fails.append(("inverse-eq", "shape after T then inverse(T) == original gives %r" % (eq if st == "ok" else (st, exc_str(eq) if st == "raise" else ""),)))
    return fails


def finalize(results, cov):
    if cov["states"] < 100:
        return ["vacuity: only %d states" % cov["states"]]
    return []
