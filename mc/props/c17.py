"""C17 Jordan-curve constructors agree with each other and reject open chains.

Every closed curve of the alphabets is built in all the ways it can be expressed
(from_vertices, from_ctrlpoints, from_segments, from_full_curve) and the results are
compared pairwise; every malformed chain of a systematic family must be rejected."""
from fractions import Fraction as F

from .. import alphabets as al
from .. import refgeo as rg
from ..runner import call_limited, exc_str

ID = "C17"
LEVEL = "exploration"
RULE = (
    "closed curves: all lattice triangles in {0..3}^2 (sliced in the quick tier), lattice quadrilaterals, the P polygons, in int / "
    "Fraction / float and both orientations; curved: circle arcs (4, 8), lens, mixed-degree rounded square, cubic blob. Each built by "
    "from_vertices (polygons), from_ctrlpoints, from_segments and from_full_curve (pynurbs.Curve with the corresponding knot vector, "
    "lines degree-elevated where the degrees are mixed): curved descriptions include coincident control points (doubled / zero-length cubic handle, two arcs sharing a control-point position), a single closed cubic and mixed degrees; pairwise ==, identical vertices (each control point once, in order), "
    "segments, box, signed length, exact area; box encloses 33 exact points per segment; sign of float(curve) = exact orientation. "
    "Malformed: every chain with one end point moved by 1, 1e-3, 1e-8 (must raise) or 1e-10 (within tolerance, accepted), an open "
    "chain, a string, an int, a list of non-curves: exception and no object. non-trivial = every description; distinct = (curve, way)."
)
ASSUMPTIONS = ["pynurbs (third party) builds the spline passed to from_full_curve"]
CASE_TIMEOUT = 900


def closed_knots(degree, nseg):
    """Knot vector of nseg Bezier pieces of the given degree joined C0."""
    kv = [F(0)] * (degree + 1)
    for k in range(1, nseg):
        kv += [F(k, nseg)] * degree
    kv += [F(1)] * (degree + 1)
    return kv


def elevate(seg, degree):
    seg = [tuple(p) for p in seg]
    while len(seg) - 1 < degree:
        n = len(seg) - 1
        new = [seg[0]]
        for i in range(1, n + 1):
            a = F(i, n + 1)
            new.append((a * seg[i - 1][0] + (1 - a) * seg[i][0], a * seg[i - 1][1] + (1 - a) * seg[i][1]))
        new.append(seg[-1])
        seg = new
    return seg


def descriptions(tier, seed):
    """list of (name, ctrl) where ctrl = list of segments (lists of (x,y) in stored types)."""
    out = []
    fam = []
    for i in range(len(al.T3)):
        if tier == "thorough" or i % 10 == seed % 10:
            fam.append(("T3.%d" % i, al.T3[i]))
    for i, q in enumerate(al.Q3()):
        if tier == "thorough" or i % 5 == seed % 5:
            fam.append(("Q3.%d" % i, q))
    for n in al.P_ORDER:
        fam.append(("P." + n, al.P_POLYS[n]))
    for name, vs in fam:
        for v in ("int", "frac", "float"):
            for cw in (False, True):
                vv = [al.variant_map(v)(x, y, i) for i, (x, y) in enumerate(vs)]
                if cw:
                    vv = [vv[0]] + vv[:0:-1]
                n = len(vv)
                out.append(("%s#%s%s" % (name, v, "@cw" if cw else ""), [[vv[i], vv[(i + 1) % n]] for i in range(n)], True))
    for q in ("c4", "c8", "lens", "rsq", "blob", "dblh", "zeroh", "pinch", "ipinch", "tear", "mixg", "elev", "elev3"):
        for cw in (False, True):
            d = al.leaf_data("Q." + q + ("@cw" if cw else ""))
            if d[0] == "ctrl":
                # the control points as written in the alphabet (a degree-elevated straight side stays elevated)
                ctrl = [[tuple(p) for p in sg] for sg in d[1]]
            else:
                S = al.build_leaf("Q." + q + ("@cw" if cw else ""))
                ctrl = [[(p._x, p._y) for p in sg.ctrlpoints] for sg in S.jordans[0].segments]
            out.append(("Q.%s%s" % (q, "@cw" if cw else ""), ctrl, False))
    return out


def cases(tier, seed):
    ds = descriptions(tier, seed)
    specs = []
    for n in range(0, len(ds), 20):
        specs.append({"id": "ctor:%d:%s" % (n, ds[n][0]), "lo": n, "hi": n + 20, "tier": tier, "seed": seed})
    specs.append({"id": "malformed", "malformed": True, "tier": tier, "seed": seed})
    return specs


def reduce_exact(seg):
    """The lowest-degree control polygon of the same Bezier curve (exact test: the p-th
    forward difference of the control points vanishes).  The library stores segments
    degree-reduced, so this is what every constructor must agree on."""
    seg = [(rg.ex(x), rg.ex(y)) for x, y in seg]
    while len(seg) > 2:
        p = len(seg) - 1
        d = list(seg)
        for _ in range(p):
            d = [(b[0] - a[0], b[1] - a[1]) for a, b in zip(d[:-1], d[1:])]
        if d[0] != (0, 0):
            break
        q = [seg[0]]
        for i in range(1, p):
            w = F(i, p)
            q.append(((seg[i][0] - w * q[-1][0]) / (1 - w), (seg[i][1] - w * q[-1][1]) / (1 - w)))
        seg = q
    return seg


def build_all(ctrl, is_poly):
    from .. import lib
    import pynurbs

    ways = {}
    if is_poly:
        ways["from_vertices"] = lambda: lib.JordanCurve.from_vertices([s[0] for s in ctrl])
    ways["from_ctrlpoints"] = lambda: lib.JordanCurve.from_ctrlpoints([list(s) for s in ctrl])
    ways["from_segments"] = lambda: lib.JordanCurve.from_segments([lib.PlanarCurve(list(s)) for s in ctrl])
    ways["from_ctrlpoints(tuples)"] = lambda: lib.JordanCurve.from_ctrlpoints(tuple(tuple(s) for s in ctrl))

    def full():
        deg = max(len(s) - 1 for s in ctrl)
        pts = []
        for s in ctrl:
            e = elevate([(rg.ex(x), rg.ex(y)) if not isinstance(x, float) else (x, y) for x, y in s], deg) if len(s) - 1 < deg else list(s)
            pts += e[:-1] if pts == [] or True else e
        pts = []
        for k, s in enumerate(ctrl):
            e = elevate(s, deg) if len(s) - 1 < deg else [tuple(p) for p in s]
            pts += list(e[:-1])
        pts.append(tuple(ctrl[0][0]))
        kv = closed_knots(deg, len(ctrl))
        curve = pynurbs.Curve(kv, [lib.Point2D(p) for p in pts])
        return lib.JordanCurve.from_full_curve(curve)

    ways["from_full_curve"] = full
    return ways


def run_case(spec):
    from .. import lib

    viols, hist, nontrivial = [], {}, []
    evals = 0

    def fail(cid, tag, msg, rep):
        viols.append({"case_id": "%s :: %s" % (cid, tag), "what": msg, "replay": rep})

    if spec.get("malformed"):
        rep = {"id": "replay:malformed", "malformed": True, "tier": spec["tier"], "seed": spec["seed"]}
        ds = [d for d in descriptions("quick", 0) if d[0].startswith(("P.triA", "P.L#", "Q.lens", "Q.rsq", "Q.blob", "T3."))][:40]
        for name, ctrl, is_poly in ds:
            for gap in (1, 1e-3, 1e-8, 1e-10):
                for which in range(min(len(ctrl), 3)):
                    bad = [list(s) for s in ctrl]
                    x, y = bad[which][-1]
                    bad[which][-1] = (x + gap if not isinstance(x, F) else x + F(gap).limit_denominator(10**12), y)
                    cid = "%s end of segment %d moved by %g" % (name, which, gap)
                    for way, fn in (("from_ctrlpoints", lambda: lib.JordanCurve.from_ctrlpoints(bad)), ("from_segments", lambda: lib.JordanCurve.from_segments([lib.PlanarCurve(s) for s in bad]))):
                        st, val = call_limited(fn, 30)
                        evals += 1
                        nontrivial.append(cid + way)
                        if gap > 1e-9:
                            if st == "ok":
                                fail(cid + " " + way, "accepted", "an open chain (gap %g) produced %r" % (gap, val), rep)
                            else:
                                hist["rejected"] = hist.get("rejected", 0) + 1
                        else:
                            if st != "ok":
                                fail(cid + " " + way, "rejected", "a gap of %g (below the 1e-9 point tolerance) is rejected: %s" % (gap, exc_str(val) if st == "raise" else st), rep)
                            else:
                                hist["accepted-within-tolerance"] = hist.get("accepted-within-tolerance", 0) + 1
        tri = [lib.PlanarCurve([(0, 0), (4, 0)]), lib.PlanarCurve([(4, 0), (0, 3)])]
        bad_calls = [
            ("from_segments(open chain)", lambda: lib.JordanCurve.from_segments(tri)),
            ("from_ctrlpoints(open chain)", lambda: lib.JordanCurve.from_ctrlpoints([[(0, 0), (4, 0)], [(4, 0), (0, 3)], [(0, 3), (1, 1)]])),
            ("from_vertices('abc')", lambda: lib.JordanCurve.from_vertices("abc")),
            ("from_vertices(5)", lambda: lib.JordanCurve.from_vertices(5)),
            ("from_vertices([1,2,3])", lambda: lib.JordanCurve.from_vertices([1, 2, 3])),
            ("from_ctrlpoints('abc')", lambda: lib.JordanCurve.from_ctrlpoints("abc")),
            ("from_ctrlpoints(3)", lambda: lib.JordanCurve.from_ctrlpoints(3)),
            ("from_segments('abc')", lambda: lib.JordanCurve.from_segments("abc")),
            ("from_segments([1,2,3])", lambda: lib.JordanCurve.from_segments([1, 2, 3])),
            ("from_segments(7)", lambda: lib.JordanCurve.from_segments(7)),
            ("JordanCurve([(0,0),(1,1)])", lambda: lib.JordanCurve([(0, 0), (1, 1)])),
            ("JordanCurve('ab')", lambda: lib.JordanCurve("ab")),
            ("from_full_curve('x')", lambda: lib.JordanCurve.from_full_curve("x")),
            ("from_full_curve(3)", lambda: lib.JordanCurve.from_full_curve(3)),
        ]
        for nm, fn in bad_calls:
            st, val = call_limited(fn, 30)
            evals += 1
            nontrivial.append(nm)
            if st == "ok":
                fail(nm, "accepted", "produced %r instead of raising" % (val,), rep)
            else:
                hist["rejected"] = hist.get("rejected", 0) + 1
        return {"violations": viols, "evals": evals, "nontrivial": nontrivial, "hist": hist, "sample": {"malformed": [c[0] for c in bad_calls][:5]}}

    ds = descriptions(spec["tier"], spec["seed"])[spec["lo"] : spec["hi"]]
    for name, ctrl, is_poly in ds:
        rep = {"id": "replay:" + name, "lo": spec["lo"], "hi": spec["hi"], "tier": spec["tier"], "seed": spec["seed"]}
        given = ctrl
        if not is_poly and any(len(sg) > 2 for sg in ctrl):
            red = [reduce_exact(sg) for sg in ctrl]
            if any(len(a) != len(b) for a, b in zip(red, ctrl)):
                hist["degree-elevated description"] = hist.get("degree-elevated description", 0) + 1
                ctrl = red  # the reference; the constructors still receive `given`
        ref = rg.RCurve(ctrl)
        rational = all(not isinstance(v, float) for s in given for p in s for v in p)
        size = max(ref.size(), F(1, 1000))
        built = {}
        for way, fn in build_all(given, is_poly).items():
            st, J = call_limited(fn, 60)
            evals += 1
            nontrivial.append((name, way))
            if st != "ok":
                fail("%s via %s" % (name, way), "noresult", "hangs" if st == "timeout" else "raises " + exc_str(J), rep)
                continue
            built[way] = J
            hist["built:" + way] = hist.get("built:" + way, 0) + 1
            cid = "%s via %s" % (name, way)
            c = rg.jordan_curve(J)
            exact = rational and way != "from_full_curve"
            tol = F(0) if exact else size / 10**9
            # segments: same count, degree and control points as described
            if len(c.segs) != len(ctrl) or any(len(a) != len(b) for a, b in zip(c.segs, ctrl)):
                fail(cid, "segments", "%d segments of degrees %s, described %d of degrees %s" % (len(c.segs), [len(s) - 1 for s in c.segs], len(ctrl), [len(s) - 1 for s in ctrl]), rep)
                continue
            bad = False
            for a, b in zip(c.segs, ref.segs):
                for p, q in zip(a, b):
                    if abs(p[0] - q[0]) > tol or abs(p[1] - q[1]) > tol:
                        fail(cid, "ctrlpoints", "control point %s, described %s" % (p, q), rep)
                        bad = True
                        break
                if bad:
                    break
            if bad:
                continue
            # vertices: each control point once, in order; junctions shared
            want = []
            for s in ref.segs:
                want += list(s[:-1])
            got = [(rg.ex(p._x), rg.ex(p._y)) for p in J.vertices]
            if len(got) != len(want) or any(abs(g[0] - w[0]) > tol or abs(g[1] - w[1]) > tol for g, w in zip(got, want)):
                fail(cid, "vertices", "vertices %s..., expected %s..." % (got[:3], want[:3]), rep)
            n = len(J.segments)
            if any(J.segments[i].ctrlpoints[-1] is not J.segments[(i + 1) % n].ctrlpoints[0] for i in range(n)):
                fail(cid, "junction", "consecutive segments do not share their junction point", rep)
            # box encloses the curve
            st, box = call_limited(lambda: J.box(), 30)
            if st != "ok":
                fail(cid, "box", str(box), rep)
            else:
                lo = (rg.ex(box.lowpt[0]), rg.ex(box.lowpt[1]))
                hi = (rg.ex(box.toppt[0]), rg.ex(box.toppt[1]))
                for s in c.segs:
                    for k in range(33):
                        p = rg.bez_eval(s, F(k, 32))
                        if not (lo[0] <= p[0] <= hi[0] and lo[1] <= p[1] <= hi[1]):
                            fail(cid, "box", "point %s of the curve outside box %s %s" % (p, lo, hi), rep)
                            break
                    else:
                        continue
                    break
                rb = ref.box()
                if is_poly and ((lo[0], lo[1], hi[0], hi[1]) != tuple(rb) if exact else any(abs(a - b) > tol for a, b in zip((lo[0], lo[1], hi[0], hi[1]), rb))):
                    fail(cid, "box", "box %s %s, exact %s" % (lo, hi, rb), rep)
            st, ln = call_limited(lambda: float(J), 30)
            if st != "ok" or (ln > 0) != (ref.area() > 0):
                fail(cid, "orientation", "float(curve) = %r but the exact signed area is %s" % (ln, float(ref.area())), rep)
            built[way] = (J, ln if st == "ok" else None)
        ways = [w for w in built if isinstance(built[w], tuple)]
        for i, a in enumerate(ways):
            for b in ways[i + 1 :]:
                Ja, la = built[a]
                Jb, lb = built[b]
                st, eq = call_limited(lambda: Ja == Jb, 120)
                evals += 1
                if st != "ok" or eq is not True:
                    fail("%s: %s vs %s" % (name, a, b), "eq", "== gives %r" % (eq if st == "ok" else (st, exc_str(eq) if st == "raise" else "")), rep)
                if la is not None and lb is not None and abs(la - lb) > 1e-9 * max(abs(la), abs(lb)):
                    fail("%s: %s vs %s" % (name, a, b), "length", "signed lengths %r and %r" % (la, lb), rep)
    seen, out = set(), []
    for v in viols:
        if v["case_id"] not in seen:
            seen.add(v["case_id"])
            out.append(v)
    return {"violations": out, "evals": evals, "nontrivial": nontrivial, "hist": hist, "sample": {"curve": ds[0][0] if ds else None, "ways": list(build_all([[(0, 0), (1, 0)], [(1, 0), (0, 1)], [(0, 1), (0, 0)]], True))}}


def finalize(results, cov):
    h = cov["outcome_histogram"]
    need = ["built:from_vertices", "built:from_full_curve", "rejected", "accepted-within-tolerance"]
    return ["vacuity: %s empty" % k for k in need if not h.get(k)]
