"""C15 Splitting and cleaning a curve never change the curve.

History explorer: breadth-first search over sequences of split(...) / clean() events on a
closed curve; the reference keeps, for every current segment, the parameter interval of the
original segment it must retrace, and compares exactly (polynomial identity at degree+1
rational parameters)."""
from fractions import Fraction as F

from .. import alphabets as al
from .. import explore
from .. import opcheck as oc
from .. import refgeo as rg
from ..runner import call_limited, exc_str

ID = "C15"
LEVEL = "model_checking"
RULE = (
    "curves: polygons triA, L, U in int / Fraction / float, circles of 4 and 8 quadratic arcs, quadratic lens, cubic blob, "
    "mixed-degree rounded square; event menu (32): split at one node (first/last segment x {1/2, 1/3, 0.5, 1e-7, 1-1e-7, "
    "2e-6, 0, 1}), at two nodes of one segment (1/3,2/3; equal; 1e-17 apart; 5e-7 apart; floats; unsorted), on two segments, "
    "at three nodes, and clean(); all histories of depth <= 2 (thorough 3) breadth-first on the real code, states "
    "de-duplicated on the full representation. Invariant in every state: orientation and area preserved (exact for "
    "lines/rationals, 1e-6 curved), each segment retraces its interval of the original segment (identity proved at degree+1 "
    "rational parameters; 1e-6 where the library degree-reduced a piece), consecutive pieces share one junction object equal "
    "to orig(t), no zero-length piece, clean() idempotent and split;clean restores the original segmentation and == "
    "original when no piece was degree-reduced."
)
ASSUMPTIONS = ["the reference mirrors the documented rule that nodes within 1e-6 of 0, 1 or of each other are ignored"]
CASE_TIMEOUT = 2400

H = F(1, 2)
EVENTS = [
    ("split", [("first", "1/2")]),
    ("split", [("first", "1/3")]),
    ("split", [("first", 0.5)]),
    ("split", [("first", 1e-7)]),
    ("split", [("first", 1 - 1e-7)]),
    ("split", [("first", 2e-6)]),
    ("split", [("first", 0)]),
    ("split", [("first", 1)]),
    ("split", [("last", "1/2")]),
    ("split", [("last", "2/3")]),
    ("split", [("last", 0.25)]),
    ("split", [("last", 1 - 2e-6)]),
    ("split", [("first", "1/3"), ("first", "2/3")]),
    ("split", [("first", "1/2"), ("first", "1/2")]),
    ("split", [("first", 0.5), ("first", 0.5 + 1e-17)]),
    ("split", [("first", 0.5), ("first", 0.5000000000000001)]),
    ("split", [("first", "1/2"), ("first", 0.5000005)]),
    ("split", [("first", 0.25), ("first", 0.75)]),
    ("split", [("first", "2/3"), ("first", "1/3")]),
    ("split", [("first", "1/2"), ("last", "1/2")]),
    ("split", [("last", "1/3"), ("first", "2/3")]),
    ("split", [("second", "1/2"), ("first", 0.5)]),
    ("split", [("first", "1/4"), ("first", "1/2"), ("first", "3/4")]),
    ("split", [("first", "1/2"), ("second", "1/2"), ("last", "1/2")]),
    ("split", [("first", "1/4"), ("first", "3/4"), ("last", "1/2")]),
    ("split", [("first", "1/3"), ("second", "1/3"), ("second", "2/3"), ("last", "1/2")]),
    ("split", [("last", "1/2"), ("second", "3/4"), ("second", "1/4"), ("first", "1/2"), ("first", "1/8")]),
    # repeated / nearly equal nodes that are NOT adjacent in the caller's order
    ("split", [("first", "1/2"), ("first", "1/4"), ("first", "1/2")]),
    ("split", [("first", 0.5), ("first", 0.25), ("first", 0.5000001)]),
    ("split", [("last", 0.5), ("first", "1/3"), ("last", 0.25), ("last", 0.5 + 1e-10)]),
    ("split", []),
    ("clean", []),
    # rational nodes with large denominators: the junction needs more digits than the
    # library's coordinate type keeps (Point2D limits denominators to 10**9)
    ("split", [("first", "123457/1000000")]),
    ("split", [("last", "654321/1000000"), ("first", "3/7")]),
    ("split", [("first", "3/7")]),
]
CLEAN = 31
BIGDEN = {32, 33}


def ename(ev):
    if ev[0] == "clean":
        return "clean()"
    return "split(" + ",".join("%s@%s" % (i, n) for i, n in ev[1]) + ")"


def num(v):
    return F(v) if isinstance(v, str) else v


CURVES = (
    [["L", "P.%s#%s" % (n, v)] for v in ("int", "frac", "float") for n in ("triA", "L", "U")]
    + [["V", [["617/5000", "1/5"], ["37071/10000", "13333/10000"], ["3/2", "17/4"]]], ["V", [[0, 0], [2, 4], [5, 1]]]]
    + [["L", "Q.c4"], ["L", "Q.c8"], ["L", "Q.lens"], ["L", "Q.blob"], ["L", "Q.rsq"], ["L", "Q.c5@cw"], ["L", "Q.elev"], ["L", "Q.tear"]]
)


def cases(tier, seed):
    depth = 2 if tier == "quick" else 3
    specs = []
    for e in CURVES:
        if depth == 3 and e[1] != "Q.blob":
            for i in range(len(EVENTS)):
                specs.append({"id": "S:%s:%s" % (al.expr_id(e), ename(EVENTS[i])), "curve": e, "prefix": [i], "depth": 2})
        else:
            specs.append({"id": "S:%s" % al.expr_id(e), "curve": e, "prefix": [], "depth": depth})
    return specs


FLOAT_NODE = [False]


def replay(e, hist):
    """Replays the history on a fresh curve together with the reference bookkeeping.
    Returns (curve J, model pieces [(orig index, t0, t1)], original RCurve, error or None)."""
    J = al.lib_eval(e).jordans[0]
    orig = rg.jordan_curve(J)
    pieces = [(i, F(0), F(1)) for i in range(len(orig.segs))]
    FLOAT_NODE[0] = any(isinstance(num(v), float) for k in hist for _, v in EVENTS[k][1])
    for k in hist:
        ev = EVENTS[k]
        if ev[0] == "clean":
            degs_before = [sg.degree for sg in J.segments]
            st, ret = call_limited(lambda: J.clean(), 60)
            if st != "ok":
                return J, pieces, orig, "clean() %s" % (st if st == "timeout" else "raises " + exc_str(ret))
            # reference: adjacent pieces of the same original segment merge, provided
            # the library has not degree-reduced one of them (then the segmentation after
            # clean is not determined by the property: pieces = None, geometric check only)
            if pieces is None or any(d < len(orig.segs[p[0]]) - 1 for d, p in zip(degs_before, pieces)):
                pieces = None
                continue
            merged = []
            for p in pieces:
                if merged and merged[-1][0] == p[0] and merged[-1][2] == p[1]:
                    merged[-1] = (p[0], merged[-1][1], p[2])
                else:
                    merged.append(p)
            pieces = merged
            continue
        n = len(J.segments)
        where = {"first": 0, "second": 1 % n, "last": n - 1}
        idx = [where[i] for i, _ in ev[1]]
        nodes = [num(v) for _, v in ev[1]]
        st, ret = call_limited(lambda: J.split(idx, nodes), 60)
        if st != "ok":
            return J, pieces, orig, "%s %s" % (ename(ev), "hangs" if st == "timeout" else "raises " + exc_str(ret))
        if pieces is None:
            continue
        # reference: per segment sorted nodes, dropping nodes within 1e-6 of 0/1/previous
        new = []
        for si, p in enumerate(pieces):
            ns = sorted(rg.ex(nd) for i2, nd in zip(idx, nodes) if i2 == si)
            kept = []
            for nd in ns:
                if nd < F(1, 10**6) or 1 - nd < F(1, 10**6):
                    continue
                if kept and nd - kept[-1] < F(1, 10**6):
                    continue
                kept.append(nd)
            o, t0, t1 = p
            cuts = [t0] + [t0 + nd * (t1 - t0) for nd in kept] + [t1]
            for a, b in zip(cuts[:-1], cuts[1:]):
                new.append((o, a, b))
        pieces = new
    return J, pieces, orig, None


def invariant_for(e):
    S0 = al.lib_eval(e)
    J0 = S0.jordans[0]
    orig0 = rg.jordan_curve(J0)
    rational = all(rg.typecode(p._x) in ("i", "F") and rg.typecode(p._y) in ("i", "F") for sg in J0.segments for p in sg.ctrlpoints)
    size = orig0.size()
    area0 = orig0.area()

    def check(state, hist):
        J, pieces, orig, err = state
        if err:
            return [("noresult", err)]
        fails = []
        cur = rg.jordan_curve(J)
        # exact only when data and every split parameter of the history are rational
        exact = rational and orig.is_poly and not any(isinstance(num(v), float) for k in hist for _, v in EVENTS[k][1])
        # coordinates are kept with denominators <= 10**9: junctions of big-denominator nodes
        # (or of repeated 3/7 splits) are rounded by <= 1e-18
        if exact and any(k in BIGDEN for k in hist) or sum(1 for k in hist if k == 34) > 2:
            exact = False
        ptol = F(0) if exact else (size / 10**9 if orig.is_poly else size / 10**6)
        # closedness and shared junction objects
        n = len(J.segments)
        for i in range(n):
            a, b = J.segments[i].ctrlpoints[-1], J.segments[(i + 1) % n].ctrlpoints[0]
            if a is not b:
                fails.append(("junction", "segments %d and %d do not share one junction object" % (i, (i + 1) % n)))
                break
        if pieces is None:
            # segmentation not determined (a degree-reduced piece went through clean):
            # every segment must stay within 1e-6*size of the original curve
            for i, sg in enumerate(cur.segs):
                for k in range(9):
                    q = rg.bez_eval(sg, F(k, 8))
                    if not orig.near(q, size / 10**6):
                        fails.append(("retrace", "segment %d leaves the original curve at %s" % (i, oc.fmt_pt(q))))
                        break
                else:
                    continue
                break
            a1 = cur.area()
            if (a1 > 0) != (area0 > 0) or abs(a1 - area0) > size * size / 10**6:
                fails.append(("area", "area %s, original %s" % (float(a1), float(area0))))
            return fails
        if len(cur.segs) != len(pieces):
            fails.append(("segmentation", "%d segments, the reference expects %d (%s)" % (len(cur.segs), len(pieces), [(o, float(a), float(b)) for o, a, b in pieces][:6])))
            return fails
        reduced = False
        for i, (sg, (o, t0, t1)) in enumerate(zip(cur.segs, pieces)):
            ref = rg.bez_sub(orig.segs[o], t0, t1)
            deg = len(sg) - 1
            if deg < len(ref) - 1:
                reduced = True
            d2 = max((p[0] - sg[0][0]) ** 2 + (p[1] - sg[0][1]) ** 2 for p in sg[1:])
            if d2 <= (size / 10**9) ** 2:
                fails.append(("zero-length", "segment %d has zero length at %s" % (i, oc.fmt_pt(sg[0]))))
            same_degree = deg == len(ref) - 1
            tol = ptol if same_degree else size / 10**6
            nparam = max(deg, len(ref) - 1) + 1
            for k in range(nparam + 1):
                s = F(k, nparam)
                a, b = rg.bez_eval(sg, s), rg.bez_eval(ref, s)
                if abs(a[0] - b[0]) > tol or abs(a[1] - b[1]) > tol:
                    fails.append(("retrace", "segment %d at s=%s is %s, the original segment %d at t=%s is %s" % (i, s, oc.fmt_pt(a), o, float(t0 + s * (t1 - t0)), oc.fmt_pt(b))))
                    break
            else:
                continue
            break
        a1 = cur.area()
        if (a1 > 0) != (area0 > 0):
            fails.append(("orientation", "orientation changed"))
        atol = F(0) if exact else (size * size / 10**9 if orig.is_poly else size * size / 10**6)
        if abs(a1 - area0) > atol:
            fails.append(("area", "area %s, original %s" % (float(a1), float(area0))))
        # after a clean: fixed point, original segmentation, == original
        if hist and EVENTS[hist[-1]][0] == "clean" and not fails:
            g1 = rg.geom_sig(J)
            st, _ = call_limited(lambda: J.clean(), 60)
            if st != "ok" or rg.geom_sig(J) != g1:
                fails.append(("idempotent", "clean() is not idempotent"))
            if not reduced:
                if len(cur.segs) != len(orig.segs):
                    fails.append(("restore", "split;clean leaves %d segments, the original has %d" % (len(cur.segs), len(orig.segs))))
                Jfresh = al.lib_eval(e).jordans[0]
                st, eq = call_limited(lambda: J == Jfresh, 120)
                if st != "ok" or eq is not True:
                    fails.append(("restore-eq", "split;clean == original gives %r" % (eq if st == "ok" else st,)))
        return fails

    return check


def run_case(spec):
    e = spec["curve"]
    prefix = spec["prefix"]
    check = invariant_for(e)
    cid = al.expr_id(e)
    hist_counts = {}

    def build(h):
        return replay(e, prefix + h)

    def canon(state):
        return (rg.rep_sig(state[0]), state[3])

    def invariant(state, h):
        fails = check(state, prefix + h)
        for t, _ in fails:
            hist_counts["fail:" + t] = hist_counts.get("fail:" + t, 0) + 1
        hist_counts["segments:%d" % min(len(state[0].segments), 12)] = hist_counts.get("segments:%d" % min(len(state[0].segments), 12), 0) + 1
        return fails

    tiny = {i for i, ev in enumerate(EVENTS) if any(v in (2e-6, 1 - 2e-6) for _, v in ev[1])}
    tiny_ok = cid in ("P.triA#int", "P.triA#float", "Q.c4")

    def enabled(h, ev):
        # nodes just above the 1e-6 threshold produce pieces of relative length 2e-6;
        # splitting such a piece again is explored on three curves only
        if ev in tiny and (not tiny_ok or len(prefix) + len(h) >= 2):
            return False  # only as first or second event of a history, on three curves
        return True

    if spec.get("history") is not None:
        st = replay(e, spec["history"])
        res = {"states": 1, "transitions": len(spec["history"]), "violations": [(spec["history"][len(prefix):], t, m) for t, m in check(st, spec["history"])], "max_depth": 0}
    else:
        res = explore.bfs(build, list(range(len(EVENTS))), canon, invariant, spec["depth"], enabled=enabled)
    viols, seen = [], set()
    for h, tag, msg in res["violations"]:
        full = spec["history"] if spec.get("history") is not None else prefix + h
        hid = "%s : %s :: %s" % (cid, " ; ".join(ename(EVENTS[i]) for i in full), tag)
        if hid in seen:
            continue
        seen.add(hid)
        viols.append({"case_id": hid, "what": msg, "replay": {"id": "replay:" + hid, "curve": e, "prefix": [], "depth": 0, "history": full}})
    return {
        "violations": viols,
        "evals": res["transitions"],
        "nontrivial": ["%s:%s:%d" % (cid, prefix, i) for i in range(res["states"])],
        "states": res["states"],
        "transitions": res["transitions"],
        "hist": hist_counts,
        "sample": {"curve": cid, "events": [ename(ev) for ev in EVENTS[:4]], "states": res["states"]},
    }
