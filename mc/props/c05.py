"""C05 Operator results are measure-consistent (inclusion-exclusion).

Same program explorer as C01: for every operand pair (X, Y) — alphabet shapes and depth-1
operator results — the four results X|Y, X&Y, X-Y, X^Y and ~X are computed by the real
library from fresh operands and the identities are evaluated with the library's own
integrals; operand moments are cross-checked against the exact reference integrals."""
from fractions import Fraction as F

from .. import alphabets as al
from .. import opcheck as oc
from .. import progs
from .. import refgeo as rg
from ..runner import call_limited, exc_str

ID = "C05"
LEVEL = "model_checking"
RULE = (
    "every ordered operand pair (X, Y) of the P/PC/TT/numeric-variant alphabets and, at depth 2, X = (A o B) "
    "against a third leaf, rings nested through islands, curved pairs (incl. two-segment lenses and cubics), in exact general position: the transitions X|Y, X&Y, X-Y, Y-X, X^Y, ~X, ~Y are executed "
    "on the real code and the identities m(X|Y)+m(X&Y)=m(X)+m(Y), m(X-Y)=m(X)-m(X&Y), m(X^Y)=m(X|Y)-m(X&Y), "
    "m(~X)=-m(X) are evaluated for the 6 moments of order <= 2 (exactly for rational data, rel 1e-5 otherwise). "
    "non-trivial = operand boundaries cross; state = distinct result representation; transition = operator application."
)
ASSUMPTIONS = [
    "Whole and Empty are counted as 0; unbounded shapes by the documented negative convention",
    "operand moments are cross-checked against exact closed-form boundary integrals (mc/refgeo.py)",
]
CASE_TIMEOUT = 900


def cases(tier, seed):
    specs = []
    for x, y in progs.pairs_a(tier):
        specs.append({"id": "a:%s,%s" % (al.expr_id(x), al.expr_id(y)), "pairs": [[x, y]]})
    tt = progs.pairs_tt(tier, seed, k=12)
    for n in range(0, len(tt), 8):
        chunk = tt[n : n + 8]
        specs.append({"id": "b:%s,%s..%d" % (chunk[0][0][1], chunk[0][1][1], len(chunk)), "pairs": [list(p) for p in chunk]})
    # depth 2: X = (A o B), Y = leaf Z
    tri = progs.triples_d2(tier, seed, k=14 if tier == "quick" else 2)
    for x, y, z in tri:
        pairs = [[[o, x, y], z] for o in progs.OPS4] + [[z, [o, x, y]] for o in ("|", "-")]
        specs.append({"id": "c:%s,%s,%s" % (x[1], y[1], z[1]), "pairs": pairs})
    qn = ["c16", "c8", "c4", "c16b", "lens", "rsq", "fsq", "ftri"] if tier == "quick" else al.Q_ORDER
    qs = [progs.L("Q." + q) for q in qn]
    for i, x in enumerate(qs):
        for y in qs[i + 1 :]:
            specs.append({"id": "e:%s,%s" % (x[1], y[1]), "pairs": [[x, y]], "cost": 30})
    for a, b in (("c16", "c16near"), ("lens", "lens2"), ("c4", "fcap"), ("scub", "ftri")):
        specs.append({"id": "e2:%s,%s" % (a, b), "pairs": [[progs.L("Q." + a), progs.L("Q." + b)]], "cost": 30})
    for x, y in progs.numeric_pairs(tier):
        specs.append({"id": "d:%s,%s" % (al.expr_id(x), al.expr_id(y)), "pairs": [[x, y]]})
    n1, n2, n3, n4, n5 = (progs.L("N.N%d#int" % i) for i in range(1, 6))
    ring12, ring34 = ["-", n1, n2], ["-", n3, n4]
    deep = ["|", ring12, ring34]
    specs.append({"id": "g:nested", "pairs": [[ring12, ring34], [deep, n5], [deep, progs.L("P.bar#int")], [progs.L("P.dia#int"), deep], [["|", ring34, n5], progs.L("P.bar#int")], [n2, ["|", ring34, n5]], [progs.L("P.bar#int"), ["|", ["-", n2, n3], n4]]]})
    for name, x, y in progs.DEG_PAIRS:
        specs.append({"id": "f:deg:" + name, "pairs": [[x, y]], "deg": True})
    shapes = progs.p_shapes(names=progs.QUICK_P) + progs.pc_shapes(names=progs.QUICK_PC)
    specs.append({"id": "f:singletons", "pairs": [[s, ["E"]] for s in shapes[:6]] + [[["W"], s] for s in shapes[:6]], "deg": True})
    return specs


def moments(shape):
    return [oc.lib_moment(shape, a, b) for a, b in oc.MOMENTS]


def judge_pair(x, y, deg, hist, sigs):
    e_all = ["|", x, y]
    leaves, sets, curves, poly = oc.leaves_info(e_all)
    if not poly:
        from . import c01

        size = max(c.size() for c in curves)
        gp = c01.curved_general_position(sets, size)
    else:
        gp = rg.regions_general_position(sets) if len(sets) > 1 else True
    if not gp and not deg:
        return "excluded"
    exact = poly and oc.expr_is_rational(e_all)
    fails = []
    res = {}
    for name, e in (("X", x), ("Y", y), ("U", ["|", x, y]), ("I", ["&", x, y]), ("D", ["-", x, y]), ("D2", ["-", y, x]), ("S", ["^", x, y]), ("NX", ["~", x]), ("NY", ["~", y])):
        st, R = oc.run_expr(e)
        if st != "ok":
            hist["no-result"] = hist.get("no-result", 0) + 1
            if gp:
                # C01 owns "always returns"; here the identity cannot be evaluated
                fails.append(("noresult:" + name, "%s %s" % (al.expr_id(e), "hangs" if st == "timeout" else "raises " + exc_str(R))))
            res[name] = None
            continue
        res[name] = R
        sigs.add(hash(rg.rep_sig(R, with_cache=False)))
        hist["result:" + rg.kind_of(R)] = hist.get("result:" + rg.kind_of(R), 0) + 1
    m = {}
    for name, R in res.items():
        if R is None:
            continue
        st, val = call_limited(lambda R=R: moments(R), 60)
        if st != "ok":
            fails.append(("integral:" + name, "integrals of %s %s" % (name, "hang" if st == "timeout" else "raise " + exc_str(val))))
            continue
        m[name] = val
        # cross-check against exact reference integrals of the same object
        for k, (a, b) in enumerate(oc.MOMENTS):
            ref = oc.ref_moment(R, a, b)
            if exact:
                ok = rg.ex(val[k]) == ref
            elif poly:
                scale = max(abs(ref), F(1, 10**6))
                ok = oc.close(val[k], ref, scale, F(1, 10**9))
            else:
                sz = max(c.size() for c in curves)
                ok = abs(rg.ex(val[k]) - ref) <= (F(1, 10**8) if a + b == 0 else F(1, 10**6)) * sz ** (a + b + 2)
            if not ok:
                fails.append(("refmoment:" + name, "moment(%d,%d) of %s is %r, exact boundary integral %s" % (a, b, name, val[k], oc.fmt_pt((ref, 0))[1:-4])))
                break

    def ident(tag, lhs_names, rhs_names, lsign, rsign):
        if any(n not in m for n in lhs_names + rhs_names):
            return
        for k, (a, b) in enumerate(oc.MOMENTS):
            lhs = sum(s * rg.ex(m[n][k]) for s, n in zip(lsign, lhs_names))
            rhs = sum(s * rg.ex(m[n][k]) for s, n in zip(rsign, rhs_names))
            if exact:
                ok = lhs == rhs
            else:
                scale = max([abs(rg.ex(m[n][k])) for n in lhs_names + rhs_names] + [F(1, 10**9)])
                ok = abs(lhs - rhs) <= F(1, 10**5) * scale
            if not ok:
                def side(names, signs):
                    return " ".join(("+" if sg > 0 else "-") + "m(" + n + ")" for sg, n in zip(signs, names)).lstrip("+")

                fails.append((tag, "moment(%d,%d): %s = %s but %s = %s" % (a, b, side(lhs_names, lsign), float(lhs), side(rhs_names, rsign), float(rhs))))
                return

    ident("incl-excl", ["U", "I"], ["X", "Y"], [1, 1], [1, 1])
    ident("difference", ["D"], ["X", "I"], [1], [1, -1])
    ident("difference-rev", ["D2"], ["Y", "I"], [1], [1, -1])
    ident("xor", ["S"], ["U", "I"], [1], [1, -1])
    ident("complement-x", ["NX"], ["X"], [1], [-1])
    ident("complement-y", ["NY"], ["Y"], [1], [-1])
    return fails


def run_case(spec):
    deg = spec.get("deg", False)
    hist, sigs = {}, set()
    viols, nontrivial = [], []
    evals = excluded = trans = 0
    for x, y in spec["pairs"]:
        res = judge_pair(x, y, deg, hist, sigs)
        if res is None:
            continue
        if res == "excluded":
            excluded += 1
            continue
        evals += 1
        trans += 7
        pid = "%s , %s" % (al.expr_id(x), al.expr_id(y))
        _, sets, _, _ = oc.leaves_info(["|", x, y])
        ncross = sum((len(rg.poly_crossings(a, b)) if a.is_poly and b.is_poly else sum(len(rg.bez_bez_crossings(sa, sb, tol=F(1, 10**6))) for sa in a.segs for sb in b.segs)) for i in range(len(sets)) for j in range(i + 1, len(sets)) for a in sets[i] for b in sets[j])
        hist["crossings:%s" % min(ncross, 10)] = hist.get("crossings:%s" % min(ncross, 10), 0) + 1
        if ncross:
            nontrivial.append(pid)
        seen = set()
        for tag, msg in res:
            if tag in seen:
                continue
            seen.add(tag)
            viols.append({"case_id": "%s :: %s" % (pid, tag), "what": msg, "replay": {"id": "replay:" + pid, "pairs": [[x, y]], "deg": deg}})
    return {
        "violations": viols,
        "evals": evals,
        "nontrivial": nontrivial,
        "states": len(sigs),
        "sig_hashes": sorted(sigs),
        "transitions": trans,
        "hist": hist,
        "excluded": excluded,
        "sample": {"pair": [al.expr_id(spec["pairs"][0][0]), al.expr_id(spec["pairs"][0][1])], "moments": [list(m) for m in oc.MOMENTS]},
    }


def finalize(results, cov):
    allsigs = set()
    for r in results:
        allsigs.update(r.get("sig_hashes", []))
    cov["states"] = len(allsigs)
    h = cov["outcome_histogram"]
    kinds = [k for k in h if k.startswith("result:")]
    if len(kinds) < 4:
        return ["vacuity: only result kinds %s observed" % kinds]
    return []
