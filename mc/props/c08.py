"""C08 Operators and queries leave operands unchanged; results share no state.

History explorer over (operation, in-place mutation, observation) histories on live
operands: after the operation every operand denotes the same region; the object graphs of
the result and of each operand are disjoint (aliasing analysis, decides all later mutations
at once); each mutation of one object leaves every other object's full representation
identical."""
from copy import copy, deepcopy
from fractions import Fraction as F

from .. import alphabets as al
from .. import explore
from .. import opcheck as oc
from .. import progs
from .. import refgeo as rg
from ..runner import call_limited, exc_str

ID = "C08"
LEVEL = "model_checking"
RULE = (
    "operand sets {crossing polygons int and float, nested pair both ways, hollow vs covering polygon, two components vs "
    "square, hollow vs square (inverting containment path), Empty/Whole vs square both ways, circle vs float polygon, "
    "circle vs circle, four pairs of FAR-APART operands (disjoint boxes: bounded, both unbounded, hollow, curved); thorough: all PC x PC}; histories: event 1 in {A|B, A&B, A-B, B-A, A^B, ~A, -A, A+B, A*B, "
    "copy(A), deepcopy(A), SimpleShape(A.jordans[0]), A==B, B in A, J in A, p in A, float(A), integrals, box, str, "
    "curve&curve, plot(A)} (thorough: two operations in a row), event 2 in {move, scale, rotate, invert} applied to each of "
    "{A, B, result}, event 3 = observation of all other objects. Invariant: operands' regions unchanged after event 1 "
    "(exact region signature / geometry), id-disjoint object graphs of result and operands, every non-mutated object "
    "keeps its full representation after event 2, singletons copy to themselves. state = representation of (A, B, result)."
)
ASSUMPTIONS = [
    "object-graph walk covers __dict__/tuple/list/dict of all library instances (explore.reachable_ids)",
    "representation-only changes of operands (extra split vertices, reset caches) are allowed by the property and not reported",
]
CASE_TIMEOUT = 1500

OPERANDS = [
    ("cross-int", ["L", "P.sqA#int"], ["L", "P.sqB#int"]),
    ("cross-float", ["L", "P.triA#float"], ["L", "P.bar#float"]),
    ("nested", ["L", "P.big#int"], ["L", "P.inner#int"]),
    ("nested-rev", ["L", "P.inner#int"], ["L", "P.big#int"]),
    ("hollow-dia", ["PC", "hollow", "int"], ["L", "P.dia#int"]),
    ("two-sq", ["PC", "two", "int"], ["L", "P.sqA#int"]),
    ("sq-hollowB", ["L", "P.big#int"], ["PC", "ringB", "int"]),
    ("hollowB-sq", ["PC", "ringB", "int"], ["L", "P.big#int"]),
    ("unbounded", ["L", "P.sqA#int@cw"], ["L", "P.triA#int"]),
    ("xtwo-L", ["PC", "xtwo", "int"], ["L", "P.L#int"]),
    ("empty-sq", ["E"], ["L", "P.sqA#int"]),
    ("sq-empty", ["L", "P.sqA#int"], ["E"]),
    ("whole-sq", ["W"], ["L", "P.sqA#int"]),
    ("sq-whole", ["L", "P.sqA#int"], ["W"]),
    ("circle-fsq", ["L", "Q.c8"], ["L", "Q.fsq"]),
    ("circle-circle", ["L", "Q.c16"], ["L", "Q.c16b"]),
    ("lens-ftri", ["L", "Q.lens"], ["L", "Q.ftri"]),
    # operands far apart (disjoint boxes): nothing crosses, the result is made of whole operand curves
    ("far-int", ["L", "P.sqA#int"], ["L", "P.far#int"]),
    ("far-unbounded", ["L", "P.sqA#int@cw"], ["L", "P.far#int@cw"]),
    ("far-hollow", ["PC", "hollow", "int"], ["L", "P.far#frac"]),
    ("far-curved", ["L", "Q.c8"], ["L", "Q.c8far"]),
]

OPS = ["A|B", "A&B", "A-B", "B-A", "A^B", "~A", "-A", "A+B", "A*B", "copy(A)", "deepcopy(A)", "Simple(A.j0)", "A==B", "B in A", "jB in A", "p in A", "float(A)", "integrals(A)", "box(A)", "str(A)", "jA & jB", "plot(A)", "~B", "copy(B)"]
MUTS = ["move", "scale", "rotate", "invert"]


def defined(x):
    return rg.kind_of(x) in ("SimpleShape", "ConnectedShape", "DisjointShape")


def apply_op(op, A, B):
    from .. import lib

    if op == "A|B":
        return A | B
    if op == "A&B":
        return A & B
    if op == "A-B":
        return A - B
    if op == "B-A":
        return B - A
    if op == "A^B":
        return A ^ B
    if op == "~A":
        return ~A
    if op == "~B":
        return ~B
    if op == "-A":
        return -A
    if op == "A+B":
        return A + B
    if op == "A*B":
        return A * B
    if op == "copy(A)":
        return copy(A)
    if op == "copy(B)":
        return copy(B)
    if op == "deepcopy(A)":
        return deepcopy(A)
    if op == "Simple(A.j0)":
        return lib.SimpleShape(A.jordans[0]) if defined(A) else None
    if op == "A==B":
        A == B if defined(A) else None
        return None
    if op == "B in A":
        B in A
        return None
    if op == "jB in A":
        if defined(A) and defined(B):
            B.jordans[0] in A
        return None
    if op == "p in A":
        (0.3, 0.2) in A
        (5, 5) in A
        return None
    if op == "float(A)":
        float(A)
        return None
    if op == "integrals(A)":
        if defined(A):
            lib.IntegrateShape.polynomial(A, 1, 1)
            lib.IntegrateShape.area(A)
            float(A.jordans[0])
        return None
    if op == "box(A)":
        if defined(A):
            A.box()
        return None
    if op == "str(A)":
        str(A), repr(A)
        return None
    if op == "jA & jB":
        if defined(A) and defined(B):
            A.jordans[0] & B.jordans[0]
            A.jordans[0].intersection(B.jordans[0])
        return None
    if op == "plot(A)":
        import matplotlib

        matplotlib.use("Agg")
        from matplotlib import pyplot

        fig = pyplot.figure()
        ax = fig.gca()
        lib_plot = __import__("shapepy").ShapePloter(fig=fig, ax=ax)
        lib_plot.plot(A)
        pyplot.close(fig)
        return None
    raise ValueError(op)


def mutate(m, X):
    if m == "move":
        X.move(3, -2)
    elif m == "scale":
        X.scale(2, 3)
    elif m == "rotate":
        X.rotate(90, degrees=True)
    elif m == "invert":
        if rg.kind_of(X) == "SimpleShape":
            X.invert()
        else:
            X.jordans[0].invert()


def region_fingerprint(X, frame=None):
    """Representation-independent description of the region an object denotes."""
    k = rg.kind_of(X)
    if k in ("EmptyShape", "WholeShape"):
        return (k,)
    reg = rg.interpret(X)
    if reg.is_polygonal():
        if all(rg.typecode(p._x) in ("i", "F") and rg.typecode(p._y) in ("i", "F") for j in X.jordans for sg in j.segments for p in sg.ctrlpoints):
            return rg.region_sig(X)
        # float polygons: a split vertex is collinear only up to rounding
        curves = reg.curves()
        size = max(c.size() for c in curves)
        tol = size / 10**9
        cyc = []
        for c in curves:
            vs = list(c.poly)
            changed = True
            while changed and len(vs) > 3:
                changed = False
                for i in range(len(vs)):
                    a, b, d = vs[i - 1], vs[i], vs[(i + 1) % len(vs)]
                    if rg.seg_dist2(b, a, d) <= tol * tol:
                        vs.pop(i)
                        changed = True
                        break
            q = [(round(float(x / size), 8), round(float(y / size), 8)) for x, y in vs]
            k = min(range(len(q)), key=lambda i: q[i])
            cyc.append(tuple(q[k:] + q[:k]))
        return (k, "floatpoly", tuple(sorted(cyc)))
    # curved: kind, exact moments of each boundary and membership on a grid; the frame
    # (box and size) is fixed by the caller so that it does not move with the subdivision
    curves = reg.curves()
    if frame is None:
        frame = make_frame(X)
    bx, size = frame
    ms = sorted(tuple(float(c.moment(a, b) / size ** (a + b + 2)) for a, b in ((0, 0), (1, 0), (0, 1))) for c in curves)
    grid = []
    for i in range(7):
        for j in range(7):
            p = (bx[0] + (bx[2] - bx[0]) * F(2 * i - 1, 10) + size / 977, bx[1] + (bx[3] - bx[1]) * F(2 * j - 1, 10) + size / 1013)
            grid.append(reg.contains(p, size / 10**6))
    return (k, "curved", tuple(ms), tuple(grid))


def make_frame(X):
    if rg.kind_of(X) in ("EmptyShape", "WholeShape"):
        return None
    curves = rg.interpret(X).curves()
    size = max(c.size() for c in curves)
    bx = (min(c.box()[0] for c in curves), min(c.box()[1] for c in curves), max(c.box()[2] for c in curves), max(c.box()[3] for c in curves))
    return bx, size


def same_region(f0, f1):
    """Equality of fingerprints; curved boundaries may move by the library's documented
    degree-reduction tolerance when they are split (C15: 1e-6), so their normalised moments
    are compared to 2e-6."""
    if len(f0) == 4 and len(f1) == 4 and f0[1] == "curved" and f1[1] == "curved":
        if f0[0] != f1[0] or f0[3] != f1[3] or len(f0[2]) != len(f1[2]):
            return False
        return all(abs(x - y) <= 2e-6 for a, b in zip(f0[2], f1[2]) for x, y in zip(a, b))
    return f0 == f1


def cases(tier, seed):
    specs = []
    operands = list(OPERANDS)
    if tier == "thorough":
        pcs = progs.pc_shapes()
        for x in pcs:
            for y in pcs:
                if x != y:
                    operands.append(("pc:%s,%s" % (x[1], y[1]), x, y))
    for name, a, b in operands:
        specs.append({"id": "H:" + name, "A": a, "B": b, "depth": 1 if tier == "quick" or name.startswith("pc:") else 2})
    return specs


def run_history(ea, eb, ops, muts):
    """Executes ops (list of op names) on fresh operands, checks the invariants after each,
    then applies the mutation to target in {'A','B','R'} and checks all others.
    Returns (fails, signature)."""
    from .. import lib

    A, B = al.lib_eval(ea), al.lib_eval(eb)
    fails = []
    R = None
    raised = RAISED
    for op in ops:
        fra, frb = make_frame(A), make_frame(B)
        fa, fb = region_fingerprint(A, fra), region_fingerprint(B, frb)
        st, res = call_limited(lambda: apply_op(op, A, B), 120)
        if st != "ok":
            # an operation that raises or hangs is C01's (always returns) and C11's
            # (operands intact after a failure) business, not judged here
            raised[0] += 1
            break
        if not same_region(region_fingerprint(A, fra), fa):
            fails.append(("operand", "after %s operand A denotes a different region" % op))
        if not same_region(region_fingerprint(B, frb), fb):
            fails.append(("operand", "after %s operand B denotes a different region" % op))
        if st == "ok" and res is not None and rg.kind_of(res) in ("SimpleShape", "ConnectedShape", "DisjointShape", "EmptyShape", "WholeShape"):
            R = res
            if rg.kind_of(R) not in ("EmptyShape", "WholeShape"):
                ids_r = explore.reachable_ids(R)
                for nm, X in (("A", A), ("B", B)):
                    common = set(ids_r) & set(explore.reachable_ids(X))
                    if common:
                        kinds = sorted({ids_r[i] for i in common})
                        fails.append(("alias", "result of %s shares %d mutable objects (%s) with operand %s" % (op, len(common), ",".join(kinds), nm)))
            if op in ("copy(A)", "deepcopy(A)") and rg.kind_of(A) in ("EmptyShape", "WholeShape") and R is not A:
                fails.append(("singleton", "%s of a singleton is a different object" % op))
    sig = (rg.rep_sig(A), rg.rep_sig(B), rg.rep_sig(R) if R is not None else None)
    objs = {"A": A, "B": B, "R": R}
    # every (mutation, target) in turn on the same live objects: each must leave all
    # other objects exactly as they were just before it
    for m, target in muts:
        X = objs.get(target)
        if X is None or rg.kind_of(X) in ("EmptyShape", "WholeShape"):
            continue
        before = {k: rg.rep_sig(v) for k, v in objs.items() if v is not None and k != target}
        st, res = call_limited(lambda: mutate(m, X), 60)
        if st != "ok":
            fails.append(("mutation-noresult", "%s on %s %s" % (m, target, st)))
            break
        for k, v in objs.items():
            if v is None or k == target:
                continue
            if rg.rep_sig(v) != before[k]:
                fails.append(("shared-state", "%s(%s) after %s changed %s" % (m, target, ";".join(ops), k)))
    return fails, sig


RAISED = [0]
ALL_MUTS = [(m, t) for t in ("R", "A", "B") for m in MUTS]


def run_case(spec):
    ea, eb, depth = spec["A"], spec["B"], spec["depth"]
    viols = []
    hist = {}
    sigs = set()
    trans = 0
    nontrivial = []
    if "history" in spec:
        hs = [spec["history"]]
    else:
        seqs = [[o] for o in OPS]
        if depth >= 2:
            binops = ["A|B", "A&B", "A-B", "A^B", "B in A", "A==B"]
            seqs += [[o1, o2] for o1 in binops for o2 in OPS[:12]]
        hs = [ops for ops in seqs]
    for ops in hs:
        fails, sig = run_history(ea, eb, ops, ALL_MUTS)
        trans += len(ops) + len(ALL_MUTS)
        sigs.add(hash(sig))
        hid = "%s : %s" % (spec["id"].replace("replay:", ""), " ; ".join(ops))
        nontrivial.append(hid)
        for tag, msg in fails:
            hist["fail:" + tag] = hist.get("fail:" + tag, 0) + 1
            viols.append({"case_id": "%s :: %s" % (hid, tag), "what": msg, "replay": {"id": "replay:" + spec["id"].replace("replay:", ""), "A": ea, "B": eb, "depth": depth, "history": ops}})
    seen, out = set(), []
    for v in viols:
        if v["case_id"] not in seen:
            seen.add(v["case_id"])
            out.append(v)
    hist["histories"] = len(hs)
    hist["operation-raised(not judged here)"] = RAISED[0]
    return {"violations": out, "evals": len(hs), "nontrivial": nontrivial, "states": len(sigs), "transitions": trans, "hist": hist, "sample": {"operands": [al.expr_id(ea), al.expr_id(eb)], "history": ["A|B", "then each of move/scale/rotate/invert on R, A, B", "observe all others"]}}
