"""C01 Boolean operators compute the set-theoretic result, point by point.

Program explorer: every operator expression of the families below is executed on the
real library from freshly built leaves; for polygonal programs the verdict is complete for
all points off the leaf boundaries (result boundary lies on leaf boundaries + one witness
per face of the arrangement of the leaves' supporting lines)."""
from fractions import Fraction as F

from .. import alphabets as al
from .. import opcheck as oc
from .. import progs
from .. import refgeo as rg
from ..runner import exc_str

ID = "C01"
LEVEL = "model_checking"
RULE = (
    "breadth-first enumeration of operator expressions (depth 1: all ordered pairs of the P/PC/TT/"
    "numeric-variant alphabets x {| & - ^ + *} and ~/unary -; depth 2: (X o Y) o' Z and X o (Y o' Z) over "
    "ordered triples of 7 polygons x 16 operator pairs; depth 3 on 4 leaves (thorough); rings nested through islands four levels deep; "
    "warm operands = the same polygons as objects with a past (built elsewhere, queried, moved back); curved tier: pairs of the float/curved Q "
    "alphabet incl. two-segment lenses, S-shaped and coincident-handle cubics, curved composites and depth-2 curved programs, judged on a 31x31 "
    "grid with clearance plus mid-points between crossing points; singleton tables; degenerate tier), each executed on "
    "the real code from fresh leaves; operands outside exact general position are counted as excluded "
    "unless listed in the degenerate tier. A case is non-trivial when the operands' boundaries cross "
    "(recombination path, not a containment short-cut); distinct = distinct result representation. "
    "state = distinct rep_sig of a returned shape, transition = one operator application judged."
)
ASSUMPTIONS = [
    "reference model mc/refgeo.py (exact rational polygon kernel, winding number, line arrangement)",
    "points of the plane are covered completely only for polygonal programs (arrangement-face argument)",
    "float programs: witnesses keep clearance 1e-4*size from leaf boundaries",
]
CASE_TIMEOUT = 900


def cases(tier, seed):
    specs = []
    for x, y in progs.pairs_a(tier):
        ops = progs.OPS4 + (("+", "*") if tier == "thorough" or x[0] == "L" else ())
        specs.append({"id": "a:%s,%s" % (al.expr_id(x), al.expr_id(y)), "exprs": [[o, x, y] for o in ops]})
    shapes = progs.p_shapes() + progs.pc_shapes()
    specs.append({"id": "a:unary", "exprs": [[u, s] for s in shapes for u in ("~", "neg")] + [["~", ["~", s]] for s in shapes]})
    tt = progs.pairs_tt(tier, seed)
    for n in range(0, len(tt), 8):
        chunk = tt[n : n + 8]
        exprs = []
        for x, y in chunk:
            exprs += [[o, x, y] for o in progs.OPS4]
        specs.append({"id": "b:%s..%s" % (al.expr_id(chunk[0][0]) + "," + al.expr_id(chunk[0][1]), len(chunk)), "exprs": exprs})
    # complement variants of TT on a fixed sub-slice
    ttc = progs.pairs_tt(tier, seed, k=48) if tier == "quick" else progs.pairs_tt("quick", 0, k=6)
    for n in range(0, len(ttc), 8):
        chunk = ttc[n : n + 8]
        exprs = []
        for x, y in chunk:
            xc, yc = ["L", x[1] + "@cw"], ["L", y[1] + "@cw"]
            for o in progs.OPS4:
                exprs += [[o, xc, y], [o, x, yc], [o, xc, yc]]
        specs.append({"id": "b~:%s..%s" % (al.expr_id(chunk[0][0]) + "," + al.expr_id(chunk[0][1]), len(chunk)), "exprs": exprs})
    for x, y, z in progs.triples_d2(tier, seed):
        specs.append({"id": "c:%s,%s,%s" % (x[1], y[1], z[1]), "exprs": progs.d2_exprs(x, y, z)})
    if tier == "thorough":
        # depth 2 with complemented leaves on a fixed slice, depth 3 on a 4-leaf subset
        for x, y, z in progs.triples_d2("quick", 3, k=10):
            xc = ["L", x[1] + "@cw"]
            zc = ["L", z[1] + "@cw"]
            specs.append({"id": "c~:%s,%s,%s" % (x[1], y[1], z[1]), "exprs": progs.d2_exprs(xc, y, z) + progs.d2_exprs(x, y, zc)})
        four = [progs.L("P.%s#int" % n) for n in ("sqA", "sqB", "triA", "bar")]
        from itertools import permutations, product

        for perm in permutations(four):
            w, x, y, z = perm
            exprs = []
            for o1, o2, o3 in product(progs.OPS4, repeat=3):
                exprs.append([o3, [o2, [o1, w, x], y], z])
                exprs.append([o2, [o1, w, x], [o3, y, z]])
            specs.append({"id": "c3:" + ",".join(p[1] for p in perm), "exprs": exprs})
    for x, y in progs.numeric_pairs(tier):
        specs.append({"id": "d:%s,%s" % (al.expr_id(x), al.expr_id(y)), "exprs": [[o, x, y] for o in progs.OPS4]})
    # (e) curved tier: float data, degree 2 and 3
    qn = ["c16", "c8", "c4", "c16b", "c8s", "lens", "rsq", "fsq", "ftri"] if tier == "quick" else al.Q_ORDER
    qs = [progs.L("Q." + q) for q in qn]
    for i, x in enumerate(qs):
        for y in qs[i + 1 :] if tier == "quick" else qs:
            if x == y:
                continue
            exprs = [[o, x, y] for o in progs.OPS4]
            if tier == "thorough":
                yc = progs.L(y[1] + "@cw")
                exprs += [["|", x, yc], ["&", x, yc]]
            specs.append({"id": "e:%s,%s" % (x[1], y[1]), "exprs": exprs, "cost": 20})
    # (w) warm operands: the same leaves as objects with a past (built elsewhere, queried, moved back)
    wn = ["sqA", "sqB", "triA", "bar", "dia", "L"] if tier == "quick" else al.P_ORDER
    for i, a in enumerate(wn):
        for b in wn:
            if a == b:
                continue
            x, y = ["WL", "P.%s#int" % a], ["WL", "P.%s#frac" % b if tier == "thorough" else "P.%s#int" % b]
            if tier == "thorough":
                y = ["WL", "P.%s#int" % b]
            exprs = [[o, x, y] for o in progs.OPS4] + [["&", x, ["L", "P.%s#int@cw" % b]], ["|", ["L", "P.%s#int" % a], y]]
            specs.append({"id": "w:%s,%s" % (a, b), "exprs": exprs})
    # (g) rings nested through islands
    specs.append({"id": "g:nested", "exprs": progs.nested_exprs()})
    specs.append({"id": "g:nested-laws", "exprs": progs.nested_laws(), "deg": True})
    # curved composites and depth-2 curved programs
    cq = [(["CQ", "ringc"], progs.L("Q.ftri")), (["CQ", "ringc"], progs.L("Q.fbar")), (["CQ", "twoc"], progs.L("Q.c16")), (["CQ", "xringc"], progs.L("Q.fsq")), (["CQ", "ringc"], progs.L("Q.c5"))]
    for x, y in cq if tier == "thorough" else cq[:1]:
        specs.append({"id": "e3:%s,%s" % (al.expr_id(x), al.expr_id(y)), "exprs": [[o, x, y] for o in progs.OPS4] + [["|", y, x], ["-", y, x]], "cost": 25})
    c16, c16b, c8, ftri, fsq, lens = (progs.L("Q." + n) for n in ("c16", "c16b", "c8", "ftri", "fsq", "lens"))
    d2c = [["&", ["|", c16, c16b], ftri], ["-", ["|", c16, c16b], fsq], ["|", ["&", c16, c16b], lens], ["^", ["-", c8, fsq], ftri], ["-", c16, ["-", c8, fsq]], ["&", ["~", ["&", c16, c16b]], c8]]
    specs.append({"id": "e4:depth2-curved", "exprs": d2c if tier == "thorough" else d2c[:2], "cost": 40})
    # curved pairs whose intersection is a two-segment lens / cap (one arc of each boundary)
    for a, b in (("c16", "c16near"), ("lens", "lens2"), ("c4", "fcap"), ("scub", "ftri"), ("scub", "c8")):
        x, y = progs.L("Q." + a), progs.L("Q." + b)
        specs.append({"id": "e2:%s,%s" % (a, b), "exprs": [[o, x, y] for o in progs.OPS4] + [["&", y, x], ["-", y, x]], "cost": 20})
    # (f) singleton rows and degenerate tier
    core = [progs.L("P.sqA#int"), progs.L("P.triA#int@cw"), ["PC", "hollow", "int"], ["PC", "two", "int"], ["PC", "xtwo", "int"]]
    if tier == "thorough":
        core = shapes
    for s in core:
        specs.append({"id": "f:rows:" + al.expr_id(s), "exprs": progs.singleton_rows(s), "deg": True})
        specs.append({"id": "f:laws:" + al.expr_id(s), "exprs": progs.law_exprs(s), "deg": True})
    specs.append({"id": "f:table", "exprs": progs.SINGLETON_TABLE, "deg": True})
    for name, x, y in progs.DEG_PAIRS:
        specs.append({"id": "f:deg:" + name, "exprs": [[o, x, y] for o in progs.OPS4] + [[o, y, x] for o in progs.OPS4], "deg": True})
    return specs


def judge(e, deg, stats, hist):
    """Returns list of (tag, message) failures for one expression."""
    leaves, sets, curves, poly = oc.leaves_info(e)
    if not poly:
        return judge_curved(e, sets, curves, stats, hist)
    gp = rg.regions_general_position(sets) if len(sets) > 1 else True
    if not gp and not deg:
        return "excluded"
    exact = oc.expr_is_rational(e)
    size = max([c.size() for c in curves] + [F(1)]) if curves else F(1)
    st, R = oc.run_expr(e)
    if st == "timeout":
        hist["hang"] = hist.get("hang", 0) + 1
        if gp:
            return [("hang", "operator does not return within %ds" % oc.OP_LIMIT)]
        hist["deg:no-result"] = hist.get("deg:no-result", 0) + 1
        return []
    if st == "raise":
        if gp:
            return [("raise", "raises " + exc_str(R))]
        hist["deg:no-result"] = hist.get("deg:no-result", 0) + 1
        return []
    kind = rg.kind_of(R)
    hist["result:" + kind] = hist.get("result:" + kind, 0) + 1
    fails = []
    try:
        sig = rg.rep_sig(R, with_cache=False)
    except Exception as exc:  # noqa: BLE001
        return [("malformed", "returned object cannot be read: " + exc_str(exc))]
    stats["sigs"].add(hash(sig))
    if curves:
        for m in oc.boundary_on_leaves(R, curves, exact, size):
            fails.append(("boundary", m))
        for m in oc.membership_check(e, R, curves, exact, size, True, stats):
            fails.append(("membership", m))
    else:
        model = al.model_eval(e)
        exp = model.contains((F(0), F(0)))
        want = "WholeShape" if exp == rg.IN else "EmptyShape"
        if kind != want:
            fails.append(("membership", "expected %s, got %s" % (want, kind)))
    return fails


def curved_general_position(sets, size):
    """No control-polygon junction of one leaf within 1e-3*size of another leaf's boundary."""
    eps = size / 1000
    for i in range(len(sets)):
        for j in range(len(sets)):
            if i == j:
                continue
            for a in sets[i]:
                for sg in a.segs:
                    for b in sets[j]:
                        if b.near(sg[0], eps):
                            return False
    return True


def judge_curved(e, sets, curves, stats, hist):
    size = max(c.size() for c in curves)
    if not curved_general_position(sets, size):
        return "excluded"
    st, R = oc.run_expr(e, 240)
    if st == "timeout":
        return [("hang", "operator does not return within 240 s")]
    if st == "raise":
        return [("raise", "raises " + exc_str(R))]
    kind = rg.kind_of(R)
    hist["result:" + kind] = hist.get("result:" + kind, 0) + 1
    hist["curved"] = hist.get("curved", 0) + 1
    stats["sigs"].add(hash(rg.rep_sig(R, with_cache=False)))
    fails = []
    model = al.model_eval(e)
    Rm = rg.interpret(R)
    # result boundary lies on the leaf boundaries (5 points per segment, 1e-5*size)
    for c in Rm.curves():
        for sg in c.segs:
            for k in range(5):
                q = rg.bez_eval(sg, F(k, 4))
                if not any(cv.near(q, size / 10**5) for cv in curves):
                    fails.append(("boundary", "result boundary point %s is off every operand boundary" % oc.fmt_pt(q)))
                    break
            if fails:
                break
        if fails:
            break
    bx = (min(c.box()[0] for c in curves), min(c.box()[1] for c in curves), max(c.box()[2] for c in curves), max(c.box()[3] for c in curves))
    nj = 0
    for i in range(31):
        for j in range(31):
            w = (bx[0] + (bx[2] - bx[0]) * F(2 * i - 1, 58) + size / 977, bx[1] + (bx[3] - bx[1]) * F(2 * j - 1, 58) + size / 1013)
            if any(c.near(w, size * 3 / 100) for c in curves):
                continue
            exp = model.contains(w)
            if exp == rg.ON:
                continue
            nj += 1
            got = Rm.contains(w, size / 10**6)
            if got != exp:
                fails.append(("membership", "point %s should be %s the result but is %s (reference reading of the returned shape)" % (oc.fmt_pt(w), exp, got)))
                break
            q = (float(w[0]), float(w[1]))
            st, val = oc.call_limited(lambda: q in R, 60)
            if st != "ok" or bool(val) != (exp == rg.IN):
                fails.append(("membership", "`%s in result` is %r, the point is %s" % (oc.fmt_pt(w), val if st == "ok" else st, exp)))
                break
        if any(t == "membership" for t, _ in fails):
            break
    # thin regions below the grid pitch: mid-points between crossing points of the leaf
    # boundaries (inside the lens/cap they bound), judged with a small clearance
    if not any(t == "membership" for t, _ in fails):
        xs = []
        for i in range(len(sets)):
            for j in range(i + 1, len(sets)):
                for a in sets[i]:
                    for b in sets[j]:
                        for sa in a.segs:
                            for sb in b.segs:
                                for c in rg.bez_bez_crossings(sa, sb, tol=F(1, 10**8)):
                                    if c[0] != "overlap":
                                        xs.append(rg.bez_eval(sa, c[0]))
        mids = [((p[0] + q[0]) / 2, (p[1] + q[1]) / 2) for i, p in enumerate(xs) for q in xs[i + 1 :]][:28]
        for w in mids:
            if any(c.near(w, size / 2000) for c in curves):
                continue
            exp = model.contains(w)
            if exp == rg.ON:
                continue
            nj += 1
            got = Rm.contains(w, size / 10**6)
            q = (float(w[0]), float(w[1]))
            st, val = oc.call_limited(lambda: q in R, 60)
            if got != exp or st != "ok" or bool(val) != (exp == rg.IN):
                fails.append(("membership", "point %s (between two crossing points) should be %s the result; reference reading %s, `in` gives %r" % (oc.fmt_pt(w), exp, got, val if st == "ok" else st)))
                break
    stats["witnesses"] = stats.get("witnesses", 0) + nj
    return fails


def run_case(spec):
    deg = spec.get("deg", False)
    stats = {"sigs": set()}
    hist = {}
    viols = []
    nontrivial = []
    evals = excluded = 0
    for e in spec["exprs"]:
        res = judge(e, deg, stats, hist)
        if res is None:
            continue
        if res == "excluded":
            excluded += 1
            continue
        evals += 1
        eid = al.expr_id(e)
        # non-trivial: some pair of leaves has crossing boundaries
        leaves, sets, curves, _ = oc.leaves_info(e)
        ncross = 0
        for i in range(len(sets)):
            for j in range(i + 1, len(sets)):
                for a in sets[i]:
                    for b in sets[j]:
                        if a.is_poly and b.is_poly:
                            ncross += len(rg.poly_crossings(a, b))
                        else:
                            ncross += sum(len(rg.bez_bez_crossings(sa, sb, tol=F(1, 10**6))) for sa in a.segs for sb in b.segs)
        hist["crossings:%s" % (ncross if ncross < 10 else "10+")] = hist.get("crossings:%s" % (ncross if ncross < 10 else "10+"), 0) + 1
        if ncross:
            nontrivial.append(eid)
        # same failure kind reported once per expression
        seen = set()
        for tag, msg in res:
            if tag in seen:
                continue
            seen.add(tag)
            viols.append({"case_id": "%s :: %s" % (eid, tag), "what": msg, "replay": {"id": "replay:" + eid, "exprs": [e], "deg": deg}})
    return {
        "violations": viols,
        "evals": evals,
        "nontrivial": nontrivial,
        "states": len(stats["sigs"]),
        "sig_hashes": sorted(stats["sigs"]),
        "transitions": evals,
        "hist": dict(hist, **{"witnesses_judged": stats.get("witnesses", 0), "witness_IN": stats.get("wit_in", 0), "witness_OUT": stats.get("wit_out", 0)}),
        "excluded": excluded,
        "sample": {"expr": al.expr_id(spec["exprs"][0]), "n_exprs": len(spec["exprs"])},
    }


def finalize(results, cov):
    h = cov["outcome_histogram"]
    errs = []
    allsigs = set()
    for r in results:
        allsigs.update(r.get("sig_hashes", []))
    cov["states"] = len(allsigs)
    kinds = [k for k in h if k.startswith("result:")]
    if len(kinds) < 4:
        errs.append("vacuity: only result kinds %s observed" % kinds)
    if h.get("witness_IN", 0) == 0 or h.get("witness_OUT", 0) == 0:
        errs.append("vacuity: witnesses never IN or never OUT")
    return errs
