"""C20 Plotting draws exactly the boundary of the shape.

Every shape of the alphabets (all kinds, degrees 1..3, unbounded, composites, Empty,
Whole) is plotted on a fresh Agg figure; every PathPatch added to the axes is decoded with
matplotlib's own path semantics into Bezier pieces and compared with the boundary."""
from fractions import Fraction as F

from .. import alphabets as al
from .. import progs
from .. import refgeo as rg
from ..runner import call_limited, exc_str

ID = "C20"
LEVEL = "exploration"
RULE = (
    "shapes: P (both orientations, int/Fraction/float), PC composites (with holes, several components, unbounded), curved Q "
    "(quadratic circles, lens, cubic blob, mixed-degree rounded square, both orientations), single-segment closed cubics (teardrop; alone, clockwise, as hole, as component), curved composites, operator results, "
    "Empty, Whole; each plotted with ShapePloter on a fresh Agg figure. Decoding MOVETO/LINETO/CURVE3/CURVE4/CLOSEPOLY of every "
    "PathPatch: one filled path per connected component containing all its boundary curves, one outline per boundary curve, each "
    "retracing the curve segment by segment (same degrees, control points within 1e-6), closed, in order; bounded components "
    "filled, unbounded ones drawn as a white hole on a coloured background; outline colour by orientation; Empty adds nothing, "
    "Whole only colours the background; the shape's full representation is unchanged. non-trivial = all; distinct = shape."
)
ASSUMPTIONS = ["matplotlib (Agg backend) path codes are decoded by this harness, nothing is rendered to pixels"]
CASE_TIMEOUT = 900


def shapes(tier):
    out = []
    for v in ("int", "frac", "float"):
        out += progs.p_shapes(v, ["sqA", "triA", "L", "U", "inner"] if tier == "quick" else None)
        out += progs.pc_shapes(v)
    for q in al.Q_ORDER:
        out.append(["L", "Q." + q])
        out.append(["L", "Q." + q + "@cw"])
    out += [["CQ", "ringc"], ["CQ", "twoc"], ["CQ", "xringc"], ["E"], ["W"]]
    # boundaries made of a single closed segment: alone, clockwise, as a hole, as a component
    box = ["V", [[-3.0, -1.0], [3.0, -1.0], [3.0, 3.0], [-3.0, 3.0]]]
    out += [["L", "Q.tear"], ["L", "Q.tear@cw"], ["L", "Q.tearg"], ["-", box, ["L", "Q.tear"]], ["|", ["L", "Q.tear"], ["L", "Q.c8far"]]]
    # boundaries with redundant vertices (as the operators leave them on their operands)
    out += [["SP", ["L", "P.sqA#int"]], ["SP", ["L", "P.L#float@cw"]], ["SP", ["PC", "hollow", "int"]], ["SP", ["PC", "two", "frac"]], ["SP", ["L", "Q.c8"]], ["SP", ["L", "Q.blob"]], ["SP", ["L", "Q.mixg"]], ["V", [[0, 0], [1, 0], [3, 0], [3, 2], [0, 2]]], ["G", "Q.rsq"]]
    out += [["-", ["L", "P.sqA#int"], ["L", "P.triA#int"]], ["^", ["L", "P.sqA#int"], ["L", "P.sqB#int"]], ["|", ["L", "Q.c8"], ["L", "Q.fsq"]], ["-", ["L", "Q.c16"], ["L", "Q.c8s"]]]
    return out


def name(e):
    return al.expr_id(e)


def cases(tier, seed):
    ss = shapes(tier)
    return [{"id": "plot:%d:%s" % (n, name(ss[n])), "lo": n, "hi": n + 8, "tier": tier} for n in range(0, len(ss), 8)]


def decode(path):
    """matplotlib Path -> list of subpaths, each a list of Bezier pieces (control point
    lists), plus flags (closed)."""
    from matplotlib.path import Path

    verts = [tuple(map(float, v)) for v in path.vertices]
    codes = list(path.codes) if path.codes is not None else [Path.MOVETO] + [Path.LINETO] * (len(verts) - 1)
    subs = []
    cur = None
    i = 0
    while i < len(verts):
        c = codes[i]
        if c == Path.MOVETO:
            cur = {"start": verts[i], "pieces": [], "closed": False, "pen": verts[i]}
            subs.append(cur)
            i += 1
        elif c == Path.LINETO:
            cur["pieces"].append([cur["pen"], verts[i]])
            cur["pen"] = verts[i]
            i += 1
        elif c == Path.CURVE3:
            cur["pieces"].append([cur["pen"], verts[i], verts[i + 1]])
            cur["pen"] = verts[i + 1]
            i += 2
        elif c == Path.CURVE4:
            cur["pieces"].append([cur["pen"], verts[i], verts[i + 1], verts[i + 2]])
            cur["pen"] = verts[i + 2]
            i += 3
        elif c == Path.CLOSEPOLY:
            # the vertex of CLOSEPOLY is ignored by matplotlib: a line back to the start
            if cur["pen"] != cur["start"]:
                cur["pieces"].append([cur["pen"], cur["start"]])
            cur["closed"] = True
            cur["pen"] = cur["start"]
            i += 1
        else:
            raise ValueError("unknown path code %r" % c)
    return subs


def match_curve(sub, curve, tol):
    """The sub-path retraces the curve segment by segment."""
    segs = curve.segs
    pieces = [p for p in sub["pieces"] if not (len(p) == 2 and max(abs(p[0][0] - p[1][0]), abs(p[0][1] - p[1][1])) <= tol)]
    if not sub["closed"]:
        return "sub-path is not closed"
    if len(pieces) != len(segs):
        return "%d drawn pieces (degrees %s) for %d segments (degrees %s)" % (len(pieces), [len(p) - 1 for p in pieces], len(segs), [len(s) - 1 for s in segs])
    for k, (p, s) in enumerate(zip(pieces, segs)):
        if len(p) != len(s):
            return "piece %d drawn with degree %d, the segment has degree %d" % (k, len(p) - 1, len(s) - 1)
        for a, b in zip(p, s):
            if abs(a[0] - float(b[0])) > tol or abs(a[1] - float(b[1])) > tol:
                return "piece %d control point %s, segment control point (%r, %r)" % (k, a, float(b[0]), float(b[1]))
    return None


def run_case(spec):
    import matplotlib

    matplotlib.use("Agg")
    from matplotlib import pyplot
    from matplotlib.patches import PathPatch
    from matplotlib.colors import to_rgba
    from .. import lib
    from . import c04

    viols, hist, nontrivial = [], {}, []
    evals_box = [0]
    for e in shapes(spec["tier"])[spec["lo"] : spec["hi"]]:
        sid = name(e)
        rep = {"id": "replay:" + sid, "lo": spec["lo"], "hi": spec["hi"], "tier": spec["tier"]}

        def fail(tag, msg):
            viols.append({"case_id": "%s :: %s" % (sid, tag), "what": msg, "replay": rep})

        st, S = call_limited(lambda: c04.build(e), 120)
        if st != "ok":
            continue  # building the operand is C01's business
        for phase in ("fresh", "again", "after move(3,-2)", "after rotate(0.5)"):
          if phase == "after move(3,-2)" and rg.kind_of(S) not in ("EmptyShape", "WholeShape"):
              S.move(3, -2)
          elif phase == "after rotate(0.5)" and rg.kind_of(S) not in ("EmptyShape", "WholeShape"):
              S.rotate(0.5)
          elif phase != "fresh" and phase != "again":
              continue
          tagp = "" if phase == "fresh" else " [%s]" % phase

          def fail(tag, msg, tagp=tagp):
              viols.append({"case_id": "%s%s :: %s" % (sid, tagp, tag), "what": msg, "replay": rep})

          ok = plot_once(S, e, fail, hist, pyplot, PathPatch, to_rgba, lib, evals_box, nontrivial, sid + tagp)
          if not ok:
              break
    seen, out_ = set(), []
    for v in viols:
        if v["case_id"] not in seen:
            seen.add(v["case_id"])
            out_.append(v)
    return {"violations": out_, "evals": evals_box[0], "nontrivial": nontrivial, "hist": hist, "sample": {"shape": name(shapes(spec["tier"])[spec["lo"]]), "phases": ["fresh", "again", "after move(3,-2)", "after rotate(0.5)"]}}


def plot_once(S, e, fail, hist, pyplot, PathPatch, to_rgba, lib, evals_box, nontrivial, label):
    """Plots S on a fresh Agg figure and compares every path with the current boundary."""
    if True:
        before = rg.rep_sig(S, with_cache=False)
        fig = pyplot.figure()
        ax = fig.gca()
        face0 = ax.get_facecolor()
        plotter = lib.shapepy.ShapePloter(fig=fig, ax=ax) if hasattr(lib, "shapepy") else __import__("shapepy").ShapePloter(fig=fig, ax=ax)
        st, val = call_limited(lambda: plotter.plot(S), 120)
        evals_box[0] += 1
        nontrivial.append(label)
        if st != "ok":
            fail("noresult", "plot %s" % (exc_str(val) if st == "raise" else st))
            pyplot.close(fig)
            return False
        if rg.rep_sig(S, with_cache=False) != before:
            fail("modified", "plotting changed the shape")
        patches = [p for p in ax.patches if isinstance(p, PathPatch)]
        kind = rg.kind_of(S)
        hist["kind:" + kind] = hist.get("kind:" + kind, 0) + 1
        if kind == "EmptyShape":
            if ax.patches or ax.collections or ax.lines:
                fail("empty", "Empty drew %d artists" % (len(ax.patches) + len(ax.collections) + len(ax.lines)))
            pyplot.close(fig)
            return True
        if kind == "WholeShape":
            if ax.patches or ax.lines:
                fail("whole", "Whole drew patches")
            if ax.get_facecolor() == face0:
                fail("whole", "Whole did not colour the background")
            pyplot.close(fig)
            return True
        comps = list(S.subshapes) if kind == "DisjointShape" else [S]
        size = max(rg.jordan_curve(j).size() for j in S.jordans)
        tol = max(2e-6, float(size) * 1e-9)
        # expected artists in order: per component one fill, then one outline per curve
        idx = 0
        for ci, comp in enumerate(comps):
            curves = [rg.jordan_curve(j) for j in comp.jordans]
            if idx >= len(patches):
                fail("missing", "no filled path for component %d" % ci)
                break
            fill = patches[idx]
            idx += 1
            subs = decode(fill.get_path())
            if len(subs) != len(curves):
                fail("fill", "component %d: filled path has %d sub-paths for %d boundary curves" % (ci, len(subs), len(curves)))
            else:
                for k, (sub, cv) in enumerate(zip(subs, curves)):
                    m = match_curve(sub, cv, tol)
                    if m:
                        fail("fill", "component %d curve %d: %s" % (ci, k, m))
                        break
            area = sum(c.area() for c in curves)
            fc = fill.get_facecolor()
            if area > 0:
                if tuple(fc[:3]) == (1.0, 1.0, 1.0) or fc[3] >= 1.0:
                    fail("fill-colour", "bounded component %d is not filled with the translucent fill colour (%s)" % (ci, fc))
            else:
                if tuple(fc[:3]) != (1.0, 1.0, 1.0) or ax.get_facecolor() == face0:
                    fail("fill-colour", "unbounded component %d is not drawn as a white hole on a coloured background" % ci)
            for k, cv in enumerate(curves):
                if idx >= len(patches):
                    fail("missing", "no outline for curve %d of component %d" % (k, ci))
                    break
                out = patches[idx]
                idx += 1
                subs = decode(out.get_path())
                if len(subs) != 1:
                    fail("outline", "outline of curve %d has %d sub-paths" % (k, len(subs)))
                    continue
                m = match_curve(subs[0], cv, tol)
                if m:
                    fail("outline", "component %d curve %d: %s" % (ci, k, m))
                want = to_rgba("red") if cv.area() > 0 else to_rgba("blue")
                if tuple(out.get_edgecolor()) != tuple(want):
                    fail("outline-colour", "curve %d (area %s) outlined in %s" % (k, float(cv.area()), out.get_edgecolor()))
                if out.get_facecolor()[3] != 0:
                    fail("outline", "outline patch is filled")
        if idx != len(patches):
            fail("extra", "%d path patches drawn, %d expected" % (len(patches), idx))
        pyplot.close(fig)
        return True


def finalize(results, cov):
    h = cov["outcome_histogram"]
    need = ["kind:SimpleShape", "kind:ConnectedShape", "kind:DisjointShape", "kind:EmptyShape", "kind:WholeShape"]
    return ["vacuity: %s never plotted" % k for k in need if not h.get(k)]
