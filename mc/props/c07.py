"""C07 == is region equality and an equivalence relation.

All ordered pairs (and, on the resulting matrix, all triples) of a representation
alphabet: every object is one description of one of a finite set of regions/curves;
X == Y must be a bool equal to 'same region' (decided by construction and cross-checked
with the exact region signature for polygons)."""
from copy import copy, deepcopy
from fractions import Fraction as F

from .. import alphabets as al
from .. import refgeo as rg
from ..runner import call_limited, exc_str

ID = "C07"
LEVEL = "exploration"
RULE = (
    "representation alphabet: for each region (5 simple polygons, opposite orientation / shifted / rescaled neighbours, "
    "composites hollow, ring, two, xtwo, unbounded, an equal-area translate of a hollow square; circle c8 and neighbours, "
    "lens, mixed-degree rounded square, cubic blob, pairs of different regions with identical control-point lists grouped into segments of different degrees; Empty, Whole) every rotation of the vertex/segment list, an inserted "
    "collinear vertex by construction and by split, curved segments split at 1/2, int / Fraction / float / mixed numbers of "
    "equal value, every permutation of holes/components, constructor vs operator vs copy vs deepcopy; the same for the "
    "closed curves themselves. ALL ordered pairs X == Y and X != Y on the real code: result is a bool equal to 'same "
    "region', != its negation; on the answer matrix: reflexive, symmetric, transitive over all triples. "
    "non-trivial = pair of objects with overlapping boxes; distinct = ordered pair."
)
ASSUMPTIONS = ["ground truth = same region by construction, cross-checked against the exact region signature for polygonal objects"]
CASE_TIMEOUT = 2400


def poly(verts):
    from .. import lib

    return lib.SimpleShape(lib.JordanCurve.from_vertices(verts))


def variant(verts, v):
    fn = al.variant_map(v)
    return [fn(x, y, i) for i, (x, y) in enumerate(verts)]


def rot(lst, k):
    k %= len(lst)
    return list(lst[k:]) + list(lst[:k])


def objects(tier):
    """List of (name, region tag, builder).  Objects with the same tag denote the same
    region (or closed curve with the same orientation)."""
    from .. import lib
    from itertools import permutations

    out = []

    def add(name, tag, fn):
        out.append((name, tag, fn))

    P = al.P_POLYS
    simple = ["sqA", "triA", "L", "inner", "bar"] if tier == "thorough" else ["sqA", "triA", "L"]
    for n in simple:
        vs = P[n]
        tag = "S:" + n
        add(n + "#int", tag, lambda vs=vs: poly(vs))
        for k in range(1, len(vs) if tier == "thorough" else 3):
            add("%s#rot%d" % (n, k), tag, lambda vs=vs, k=k: poly(rot(vs, k)))
        for v in ("fr1", "fint", "mixed"):
            add("%s#%s" % (n, v), tag, lambda vs=vs, v=v: poly(variant(vs, v)))
        mid = [((vs[0][0] + vs[1][0]) / 2, (vs[0][1] + vs[1][1]) / 2)]
        add(n + "#collinear-vertex", tag, lambda vs=vs, mid=mid: poly([vs[0]] + [(F(vs[0][0] + vs[1][0], 2), F(vs[0][1] + vs[1][1], 2))] + list(vs[1:])))

        def split_built(vs=vs):
            s = poly(vs)
            s.jordans[0].split([1, 0], [F(1, 3), F(1, 2)])
            return s

        add(n + "#split", tag, split_built)
        # the same number of redundant vertices at other places
        add(n + "#collinear-vertex-b", tag, lambda vs=vs: poly(list(vs[:2]) + [(F(vs[1][0] + vs[2][0], 2), F(vs[1][1] + vs[2][1], 2))] + list(vs[2:])))

        def split_built_b(vs=vs):
            s = poly(rot(vs, 1))
            s.jordans[0].split([0, 2], [F(2, 3), F(1, 4)])
            return s

        add(n + "#split-b", tag, split_built_b)
        add(n + "#copy", tag, lambda vs=vs: copy(poly(vs)))
        add(n + "#deepcopy", tag, lambda vs=vs: deepcopy(poly(rot(vs, 1))))
        add(n + "#~~", tag, lambda vs=vs: ~(~poly(vs)))
        add(n + "#&big", tag, lambda vs=vs: poly(vs) & poly(P["big"]))
        add(n + "#rot-float", tag, lambda vs=vs: poly(rot(variant(vs, "fint"), 2)))
        # neighbours that are NOT equal
        add(n + "@cw", "S:%s@cw" % n, lambda vs=vs: poly([vs[0]] + list(vs[:0:-1])))
        add(n + "@cw#inv", "S:%s@cw" % n, lambda vs=vs: ~poly(rot(vs, 1)))
        add(n + "+shift", "S:%s+shift" % n, lambda vs=vs: poly([(x + 1, y) for x, y in vs]))
        add(n + "+eps", "S:%s+eps" % n, lambda vs=vs: poly([(x + (1e-3 if i == 0 else 0), y) for i, (x, y) in enumerate(variant(vs, "fint"))]))
    # float data with non-dyadic differences, oblique edges, redundant vertices away from the middle
    ft = [(0.1, 0.2), (0.7, 0.5), (0.3, 0.9)]
    third = (0.1 + (0.7 - 0.1) / 3, 0.2 + (0.5 - 0.2) / 3)
    add("ftri", "S:ftri", lambda: poly(ft))
    add("ftri#rot", "S:ftri", lambda: poly(rot(ft, 1)))
    add("ftri#vertex-at-third", "S:ftri", lambda: poly([ft[0], third, ft[1], ft[2]]))
    add("ftri#frac", "S:ftri", lambda: poly([(F(1, 10), F(1, 5)), (F(7, 10), F(1, 2)), (F(3, 10), F(9, 10))]))
    add("ftri#frac-vertex-at-third", "S:ftri", lambda: poly([(F(1, 10), F(1, 5)), (F(3, 10), F(3, 10)), (F(7, 10), F(1, 2)), (F(3, 10), F(9, 10))]))

    def ftri_split(idx, nodes):
        s = poly(ft)
        s.jordans[0].split(idx, nodes)
        return s

    add("ftri#split-third", "S:ftri", lambda: ftri_split([0], [F(1, 3)]))
    add("ftri#split-b", "S:ftri", lambda: ftri_split([1, 2], [0.3, F(2, 3)]))
    # same area, different region
    add("sqA-area-twin", "S:twin", lambda: poly([(0, 0), (20, 0), (20, 5), (0, 5)]))
    # composites
    def hollow(order, names=("big", "inner", "notch")):
        subs = [poly(P[names[0]])] + [poly([P[n][0]] + list(P[n][:0:-1])) for n in names[1:]]
        return lib.ConnectedShape([subs[i] for i in order])

    perms3 = list(permutations(range(3))) if tier == "thorough" else [(0, 1, 2), (2, 0, 1), (1, 2, 0)]
    for pm in perms3:
        add("hollow#perm%s" % "".join(map(str, pm)), "C:hollow", lambda pm=pm: hollow(pm))
    add("hollow#ops", "C:hollow", lambda: poly(P["big"]) - poly(P["inner"]) - poly(P["notch"]))
    add("hollow#ops2", "C:hollow", lambda: (poly(rot(P["big"], 2)) - poly(P["notch"])) - poly(variant(P["inner"], "fint")))
    add("hollow#copy", "C:hollow", lambda: copy(hollow((0, 1, 2))))

    def hollow_split(where):
        h = hollow((0, 1, 2))
        h.subshapes[where[0]].jordans[0].split([where[1]], [F(1, 2)])
        return h

    add("hollow#split-hole", "C:hollow", lambda: hollow_split((1, 0)))
    add("hollow#split-hole-b", "C:hollow", lambda: hollow_split((1, 2)))
    add("hollow#split-outer", "C:hollow", lambda: hollow_split((0, 1)))
    add("ring-inner", "C:ring-inner", lambda: lib.ConnectedShape([poly(P["big"]), ~poly(P["inner"])]))
    add("ring-inner#ops", "C:ring-inner", lambda: poly(P["big"]) - poly(rot(P["inner"], 1)))
    add("ring-notch", "C:ring-notch", lambda: poly(P["big"]) - poly(P["notch"]))
    # two hollow squares with the same area at different places
    add("hsq", "C:hsq", lambda: poly([(0, 0), (10, 0), (10, 10), (0, 10)]) - poly([(4, 4), (6, 4), (6, 6), (4, 6)]))
    add("hsq#ctor", "C:hsq", lambda: lib.ConnectedShape([~poly([(4, 4), (6, 4), (6, 6), (4, 6)]), poly([(10, 0), (10, 10), (0, 10), (0, 0)])]))
    add("hsq+20", "C:hsq+20", lambda: poly([(20, 0), (30, 0), (30, 10), (20, 10)]) - poly([(24, 4), (26, 4), (26, 6), (24, 6)]))
    add("hsq-hole-moved", "C:hsq-hole-moved", lambda: poly([(0, 0), (10, 0), (10, 10), (0, 10)]) - poly([(2, 2), (4, 2), (4, 4), (2, 4)]))
    add("xtwo", "C:xtwo", lambda: lib.ConnectedShape([~poly(P["inner"]), ~poly(P["far"])]))
    add("xtwo#perm", "C:xtwo", lambda: lib.ConnectedShape([~poly(P["far"]), ~poly(rot(P["inner"], 1))]))
    add("xtwo#ops", "C:xtwo", lambda: ~(poly(P["inner"]) | poly(P["far"])))
    add("two", "D:two", lambda: lib.DisjointShape([poly(P["inner"]), poly(P["far"])]))
    add("two#perm", "D:two", lambda: lib.DisjointShape([poly(rot(P["far"], 1)), poly(variant(P["inner"], "fint"))]))
    add("two#ops", "D:two", lambda: poly(P["far"]) | poly(P["inner"]))
    add("two-other", "D:two-other", lambda: poly(P["notch"]) | poly(P["far"]))
    add("three", "D:three", lambda: lib.DisjointShape([poly(P["inner"]), poly(P["far"]), poly(P["notch"])]))
    add("three#perm", "D:three", lambda: lib.DisjointShape([poly(P["notch"]), poly(P["inner"]), poly(P["far"])]))
    add("xhollow", "D:xhollow", lambda: ~hollow((0, 1, 2)))
    add("xhollow#ctor", "D:xhollow", lambda: lib.DisjointShape([poly(P["notch"]), ~poly(P["big"]), poly(P["inner"])]))
    add("Empty", "E", lambda: lib.EmptyShape())
    add("Empty#ops", "E", lambda: poly(P["sqA"]) - poly(P["sqA"]))
    add("Whole", "W", lambda: lib.WholeShape())
    add("Whole#ops", "W", lambda: poly(P["sqA"]) | ~poly(P["sqA"]))
    # curved
    def circle(**kw):
        return lib.Primitive.circle(**kw)

    def rotated_segments(shape, k):
        segs = [[(p._x, p._y) for p in s.ctrlpoints] for s in shape.jordans[0].segments]
        return lib.SimpleShape(lib.JordanCurve.from_ctrlpoints(rot(segs, k)))

    def split_half(shape, idx=(0,)):
        shape.jordans[0].split(list(idx), [F(1, 2)] * len(idx))
        return shape

    add("c8", "Q:c8", lambda: circle(ndivangle=8))
    add("c8#rot", "Q:c8", lambda: rotated_segments(circle(ndivangle=8), 3))
    add("c8#split", "Q:c8", lambda: split_half(circle(ndivangle=8), (0, 3)))
    add("c8#split-b", "Q:c8", lambda: split_half(circle(ndivangle=8), (1, 5)))
    add("c8#copy", "Q:c8", lambda: copy(circle(ndivangle=8)))
    add("c8#&big", "Q:c8", lambda: circle(ndivangle=8) & poly(P["big"]))
    add("c8@cw", "Q:c8@cw", lambda: ~circle(ndivangle=8))

    def cfar(split=None):
        c = circle(radius=1.3, center=(0.1, 0.2), ndivangle=8)
        if split:
            c.jordans[0].split(*split)
        return c

    add("c13", "Q:c13", lambda: cfar())
    add("c13#split-third", "Q:c13", lambda: cfar(([0, 2], [F(1, 3), F(1, 3)])))
    add("c13#split-b", "Q:c13", lambda: cfar(([1, 5], [0.4, F(2, 3)])))
    add("c8+r", "Q:c8+r", lambda: circle(radius=1.001, ndivangle=8))
    add("c16", "Q:c16", lambda: circle(ndivangle=16))
    add("lens", "Q:lens", lambda: al.build_leaf("Q.lens"))
    add("lens#rot", "Q:lens", lambda: rotated_segments(al.build_leaf("Q.lens"), 1))
    add("lens#split", "Q:lens", lambda: split_half(al.build_leaf("Q.lens"), (1,)))
    add("lens#split-b", "Q:lens", lambda: split_half(al.build_leaf("Q.lens"), (0,)))
    add("rsq", "Q:rsq", lambda: al.build_leaf("Q.rsq"))
    add("rsq#rot", "Q:rsq", lambda: rotated_segments(al.build_leaf("Q.rsq"), 3))
    add("rsq#split", "Q:rsq", lambda: split_half(al.build_leaf("Q.rsq"), (0, 1)))
    add("rsq#split-b", "Q:rsq", lambda: split_half(al.build_leaf("Q.rsq"), (2, 5)))
    add("blob", "Q:blob", lambda: al.build_leaf("Q.blob"))
    add("blob#rot", "Q:blob", lambda: rotated_segments(al.build_leaf("Q.blob"), 2))
    add("blob#split", "Q:blob", lambda: split_half(al.build_leaf("Q.blob"), (0,)))
    add("docs-curve", "Q:docs", lambda: lib.SimpleShape(lib.JordanCurve.from_ctrlpoints([[(0, 0), (4, 0)], [(4, 0), (4, 3), (0, 3)], [(0, 3), (0, 0)]])))
    add("docs-curve#rot", "Q:docs", lambda: lib.SimpleShape(lib.JordanCurve.from_ctrlpoints([[(0, 3), (0, 0)], [(0.0, 0.0), (4.0, 0.0)], [(4, 0), (4, 3), (0, 3)]])))
    # different regions with the SAME control points in the same order from the same start
    # point, grouped into segments of different degrees (equal areas for the octagon pair)
    O = [(-1, -3), (3, -3), (3, -1), (3, 3), (1, 3), (-3, 3), (-3, 1), (-3, -3)]
    add("cpX", "Q:cpX", lambda: lib.SimpleShape(lib.JordanCurve.from_ctrlpoints([[O[0], O[1], O[2]], [O[2], O[3]], [O[3], O[4]], [O[4], O[5], O[6]], [O[6], O[7]], [O[7], O[0]]])))
    add("cpY", "Q:cpY", lambda: lib.SimpleShape(lib.JordanCurve.from_ctrlpoints([[O[0], O[1]], [O[1], O[2]], [O[2], O[3], O[4]], [O[4], O[5]], [O[5], O[6]], [O[6], O[7], O[0]]])))
    add("cpX#float", "Q:cpX", lambda: lib.SimpleShape(lib.JordanCurve.from_ctrlpoints([[tuple(map(float, q)) for q in sg] for sg in ([O[0], O[1], O[2]], [O[2], O[3]], [O[3], O[4]], [O[4], O[5], O[6]], [O[6], O[7]], [O[7], O[0]])])))
    add("cpsq", "Q:cpsq", lambda: poly([(0, 0), (2, 0), (2, 2), (0, 2)]))
    add("cplens", "Q:cplens", lambda: lib.SimpleShape(lib.JordanCurve.from_ctrlpoints([[(0, 0), (2, 0), (2, 2)], [(2, 2), (0, 2), (0, 0)]])))
    add("ringc", "Q:ringc", lambda: circle(radius=3.0, ndivangle=8) - al.build_leaf("Q.lens"))
    add("ringc#ctor", "Q:ringc", lambda: lib.ConnectedShape([~rotated_segments(al.build_leaf("Q.lens"), 1), circle(radius=3.0, ndivangle=8)]))
    return out


def curve_objects(objs):
    """The closed curves of the simple-shape objects, as JordanCurve objects."""
    out = []
    for name, tag, fn in objs:
        if tag.startswith(("S:", "Q:")) and not tag.startswith("Q:ringc"):
            out.append(("J(" + name + ")", "J" + tag, lambda fn=fn: fn().jordans[0]))
    return out


def all_objects(tier):
    objs = objects(tier)
    curves = curve_objects(objs)
    if tier == "quick":
        curves = curves[::2] + [c for c in curves[1::2] if c[0].startswith("J(cp")]
    return objs, curves


def cases(tier, seed):
    objs, curves = all_objects(tier)
    specs = []
    for i, (name, tag, _) in enumerate(objs):
        specs.append({"id": "row:" + name, "family": "shape", "row": i, "tier": tier, "cost": 10 if tag.startswith("Q") else 1})
    for i, (name, tag, _) in enumerate(curves):
        specs.append({"id": "row:" + name, "family": "curve", "row": i, "tier": tier, "cost": 10 if tag.startswith("JQ") else 1})
    return specs


def overlap(a, b):
    ja, jb = rg.all_jordans(a) if rg.kind_of(a) != "JordanCurve" else [a], rg.all_jordans(b) if rg.kind_of(b) != "JordanCurve" else [b]
    if not ja or not jb:
        return False
    ba = [rg.jordan_curve(j).box() for j in ja]
    bb = [rg.jordan_curve(j).box() for j in jb]
    A = (min(x[0] for x in ba), min(x[1] for x in ba), max(x[2] for x in ba), max(x[3] for x in ba))
    B = (min(x[0] for x in bb), min(x[1] for x in bb), max(x[2] for x in bb), max(x[3] for x in bb))
    return not (A[2] < B[0] or B[2] < A[0] or A[3] < B[1] or B[3] < A[1])


def run_case(spec):
    objs, curves = all_objects(spec["tier"])
    fam = objs if spec["family"] == "shape" else curves
    i = spec["row"]
    name, tag, fn = fam[i]
    cols = spec.get("cols") or range(len(fam))
    viols, hist, nontrivial = [], {}, []
    row = {}
    evals = 0
    for j in cols:
        n2, tag2, fn2 = fam[j]
        X, Y = fn(), fn2()
        truth = tag == tag2
        # cross-check of the construction for polygonal objects
        try:
            polyg = all(len(s.ctrlpoints) == 2 for o in (X, Y) for jd in ([o] if rg.kind_of(o) == "JordanCurve" else rg.all_jordans(o)) for s in jd.segments)
        except Exception:  # noqa: BLE001
            polyg = False
        if polyg and (rg.region_sig(X) == rg.region_sig(Y)) != truth:
            # float copies of integer data have identical exact values: signatures must agree
            if not any("eps" in t or "ftri" in t for t in (tag, tag2)):  # ftri: 0.1 is not exactly 1/10
                raise RuntimeError("alphabet error: %s vs %s truth %s but region signatures say otherwise" % (name, n2, truth))
        pid = "%s == %s" % (name, n2)
        rep = {"id": "replay:" + pid, "family": spec["family"], "row": i, "cols": [j], "tier": spec["tier"]}
        st, eq = call_limited(lambda: X == Y, 300)
        evals += 1
        hist["truth:%s" % truth] = hist.get("truth:%s" % truth, 0) + 1
        if overlap(X, Y):
            nontrivial.append(pid)
        if st != "ok":
            viols.append({"case_id": pid + " :: noresult", "what": "hangs" if st == "timeout" else "raises " + exc_str(eq), "replay": rep})
            row[j] = None
            continue
        if type(eq) is not bool and type(eq).__name__ != "bool_":
            viols.append({"case_id": pid + " :: type", "what": "== returned %r" % (eq,), "replay": rep})
        row[j] = bool(eq)
        if bool(eq) != truth:
            viols.append({"case_id": pid + " :: value", "what": "== is %r but the two objects %s the same region" % (bool(eq), "denote" if truth else "do not denote"), "replay": rep})
        X2, Y2 = fn(), fn2()
        st, ne = call_limited(lambda: X2 != Y2, 300)
        if st != "ok" or bool(ne) == bool(eq):
            viols.append({"case_id": pid + " :: ne", "what": "!= gives %r while == gives %r" % (ne if st == "ok" else st, eq), "replay": rep})
    return {"violations": viols, "evals": evals, "nontrivial": nontrivial, "hist": hist, "row": [spec["family"], i, row, spec["tier"]], "sample": {"object": name, "region": tag, "compared_with": len(list(cols))}}


def post(results):
    """Reflexive / symmetric / transitive on the matrix of answers."""
    viols = []
    tier = None
    mats = {"shape": {}, "curve": {}}
    for r in results:
        if "row" in r:
            fam, i, row, tier = r["row"]
            mats[fam][i] = row
    for fam, M in mats.items():
        if not M:
            continue
        n = max(M) + 1
        objs, curves = all_objects(tier)
        nm = [o[0] for o in (objs if fam == "shape" else curves)]

        def g(i, j):
            return M.get(i, {}).get(j)

        for i in range(n):
            if g(i, i) is False:
                viols.append({"case_id": "%s matrix :: reflexive %s" % (fam, nm[i]), "what": "X == X is False", "replay": {"id": "replay:post", "family": fam, "row": i, "cols": [i], "tier": tier}})
            for j in range(i + 1, n):
                if g(i, j) is not None and g(j, i) is not None and g(i, j) != g(j, i):
                    viols.append({"case_id": "%s matrix :: symmetric (%s, %s)" % (fam, nm[i], nm[j]), "what": "X == Y is %r but Y == X is %r" % (g(i, j), g(j, i)), "replay": {"id": "replay:post", "family": fam, "row": i, "cols": [j], "tier": tier}})
        ntr = 0
        for i in range(n):
            for j in range(n):
                if g(i, j) is not True:
                    continue
                for k in range(n):
                    if g(j, k) is True and g(i, k) is False:
                        ntr += 1
                        if ntr <= 5:
                            viols.append({"case_id": "%s matrix :: transitive (%s, %s, %s)" % (fam, nm[i], nm[j], nm[k]), "what": "X == Y and Y == Z but X != Z", "replay": {"id": "replay:post", "family": fam, "row": i, "cols": [j, k], "tier": tier}})
    return viols


def finalize(results, cov):
    h = cov["outcome_histogram"]
    errs = []
    for k in ("truth:True", "truth:False"):
        if not h.get(k):
            errs.append("vacuity: " + k)
    return errs
