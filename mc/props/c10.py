"""C10 Answers depend only on the current geometry, not on earlier calls.

History explorer: breadth-first search over all event histories (operators, queries and
in-place transformations on the live objects A, B) up to a depth; states are de-duplicated
on the full representation of (A, B, C) including caches and segment subdivision; in every
state a query battery is run on the live objects and on fresh copies rebuilt from the
control points through the public constructors, and the answers are compared.
Configuration runner: a program list in fresh processes with different hash seeds and
warm/cold module-level memo tables, dumps compared byte for byte."""
from fractions import Fraction as F
import os
import subprocess
import sys

from .. import alphabets as al
from .. import explore
from .. import opcheck as oc
from .. import refgeo as rg
from ..runner import call_limited, exc_str, VERIF
from . import c08

ID = "C10"
LEVEL = "model_checking"
RULE = (
    "live objects (A, B, C) from {(sqA, triA, bar) int, (hollow, dia, U) int, (triA, sqB, bar) float, (circle c8, fsq, ftri) "
    "curved, and three sets in which A (a square / two squares / a hollow square) starts 100 units away and move(A) brings it "
    "across B and C}; event menu: A|B, A&B, A-B, B-A, A^B, B in A, float(A.jordans[0]), A==B, A.move(1,1), A.scale(2,2), "
    "A.rotate(pi/2), curve(A).intersection(curve(B)), A.scale(-1,-1); all histories of depth <= 2 (thorough 3) explored breadth-first on the real code, states "
    "de-duplicated on the full representation incl. cached lengths and subdivision; in every state the battery (area, "
    "moment, signed length and orientation of every curve, box, membership of a 5x5 grid, curve-curve intersections, A==B, B in A, A in B, X|C, "
    "X&C, X-C, X^C) is asked of the live objects and of freshly rebuilt copies and must agree (exactly for rational "
    "polygons and booleans/kinds, rel 1e-9 for floats; orientation sign exactly, length magnitude rel 1e-9), agree with a fresh "
    "copy whose redundant vertices were cleaned away (answers must not depend on the subdivision the operators leave behind), and asking "
    "twice gives the same answers. Configuration axis: 112 programs (polygons, quadratic and cubic curved pairs, every factory with default and non-default centre and radius, each twice) in fresh processes with PYTHONHASHSEED 0/1/4242/"
    "random, cold vs warm memo tables (warm = after a tour of the public API on unrelated objects: derivatives of every order on segments of degree 1..4, highest order first, evaluation, split, box, point-on-curve, winding, integrals with explicit node counts, all factories, all operators, transformations, intersection flags, clean; then every program once): identical dumps."
)
ASSUMPTIONS = [
    "fresh copies are built with JordanCurve.from_ctrlpoints / SimpleShape / ConnectedShape / DisjointShape from the stored control points",
    "float(jordan) magnitude is a float sum whose grouping legitimately changes with the subdivision: compared to rel 1e-9",
]
CASE_TIMEOUT = 3000

EVENTS = ["A|B", "A&B", "A-B", "B-A", "A^B", "B in A", "len(A)", "A==B", "move(A)", "scale(A)", "rotate(A)", "jA&jB", "flip(A)"]

OPERANDS = {
    "poly-int": (["L", "P.sqA#int"], ["L", "P.triA#int"], ["L", "P.bar#int"]),
    "hollow": (["PC", "hollow", "int"], ["L", "P.dia#int"], ["L", "P.U#int"]),
    "poly-float": (["L", "P.triA#float"], ["L", "P.sqB#float"], ["L", "P.bar#float"]),
    "curved": (["L", "Q.c8"], ["L", "Q.fsq"], ["L", "Q.ftri"]),
    # A starts 100 units away from B and C (boxes disjoint) and move(A) brings it across them:
    # anything cached while it was far away (boxes, lengths) must not survive the move
    "poly-far": (["V", [[-100, 0], [-90, 0], [-90, 10], [-100, 10]]], ["L", "P.triA#int"], ["L", "P.bar#int"]),
    "compound-far": (["DV", [[[-100, 1], [-90, 1], [-90, 11], [-100, 11]], [[-80, 1], [-70, 1], [-70, 11], [-80, 11]]]], ["L", "P.inner#int"], ["L", "P.bar#int"]),
    "hollow-far": (["CV", [[-105, -5], [-85, -5], [-85, 16], [-105, 16]], [[-99, 6], [-99, 9], [-91, 9], [-91, 6]]], ["L", "P.inner#int"], ["L", "P.bar#int"]),
}
# per operand set: translation of move(A), factors of scale(A), angle of rotate(A)
PARAMS = {
    "poly-far": ((100, 0), (2, 2), "pi"),
    "compound-far": ((102, 0), (2, 2), "pi"),
    "hollow-far": ((102, 0), (2, 2), "pi"),
}


def build_operand(e):
    from .. import lib

    if e[0] == "DV":
        return lib.DisjointShape([al.verts_shape(v) for v in e[1]])
    if e[0] == "CV":
        return lib.ConnectedShape([al.verts_shape(e[1]), al.verts_shape(e[2])])
    return al.lib_eval(e)


def apply_event(ev, A, B, name=None):
    import math

    mv, sc, ang = PARAMS.get(name, ((1, 1), (2, 2), "pi/2"))

    if ev == "A|B":
        return A | B
    if ev == "A&B":
        return A & B
    if ev == "A-B":
        return A - B
    if ev == "B-A":
        return B - A
    if ev == "A^B":
        return A ^ B
    if ev == "B in A":
        return B in A
    if ev == "len(A)":
        return [float(j) for j in A.jordans]
    if ev == "A==B":
        return A == B
    if ev == "jA&jB":
        return [ja.intersection(jb) for ja in A.jordans for jb in B.jordans]
    if ev == "flip(A)":
        # uniform negative scale = rotation by 180 degrees: keeps the orientation
        return A.scale(-1, -1)
    if ev == "move(A)":
        return A.move(*mv)
    if ev == "scale(A)":
        return A.scale(*sc)
    if ev == "rotate(A)":
        return A.rotate(math.pi if ang == "pi" else math.pi / 2)
    raise ValueError(ev)


def rebuild(X):
    """Fresh copy from the stored control points through the public constructors."""
    from .. import lib

    k = rg.kind_of(X)
    if k in ("EmptyShape", "WholeShape"):
        return X
    if k == "SimpleShape":
        ctrl = [[(p._x, p._y) for p in sg.ctrlpoints] for sg in X.jordans[0].segments]
        return lib.SimpleShape(lib.JordanCurve.from_ctrlpoints(ctrl))
    subs = [rebuild(s) for s in X.subshapes]
    return lib.ConnectedShape(subs) if k == "ConnectedShape" else lib.DisjointShape(subs)


def outcome(fn, limit=120):
    st, val = call_limited(fn, limit)
    if st == "ok":
        return ("ok", val)
    if st == "raise":
        return ("raise", type(val).__name__)
    return ("timeout", None)


def num_obs(v):
    tc = rg.typecode(v)
    return ("rat", rg.ex(v)) if tc in ("i", "F") else ("flt", float(v))


def shape_obs(R, frame):
    k = rg.kind_of(R)
    if k in ("EmptyShape", "WholeShape"):
        return (k,)
    return (k, c08.region_fingerprint(R, frame), num_obs(oc.lib_moment(R, 0, 0)), num_obs(oc.lib_moment(R, 1, 0)))


def battery(A, B, C, frames, small=False):
    """List of (question, observation)."""
    from .. import lib

    out = []
    for nm, X in (("A", A), ("B", B)):
        out.append((nm + ".area", outcome(lambda: num_obs(float(X)))))
        out.append((nm + ".moment(1,0)", outcome(lambda: num_obs(lib.IntegrateShape.polynomial(X, 1, 0)))))
        for i, j in enumerate(X.jordans):
            out.append((nm + ".curve%d.signed-length" % i, outcome(lambda: ("len", float(j)))))
        out.append((nm + ".box", outcome(lambda: tuple(num_obs(v) for v in (X.box().lowpt[0], X.box().lowpt[1], X.box().toppt[0], X.box().toppt[1])))))
        bx, size = frames[nm]
        grid = []
        for i in range(5):
            for j2 in range(5):
                p = (float(bx[0] + (bx[2] - bx[0]) * F(2 * i - 1, 6) + size / 977), float(bx[1] + (bx[3] - bx[1]) * F(2 * j2 - 1, 6) + size / 1013))
                grid.append(p)
        out.append((nm + ".grid", outcome(lambda: tuple(bool(p in X) for p in grid))))
    def inter_obs():
        # the (segment, parameter) encoding legitimately moves with the subdivision; the
        # crossing POINTS are the geometry: compared as a sorted set, rounded to 1e-7*size
        bx, size = frames["U"]
        q = float(size) * 1e-7
        res = []
        for ja in A.jordans:
            for jb in list(B.jordans) + list(C.jordans):
                pts = set()
                for a, b, u, v in ja.intersection(jb):
                    if u is None:
                        continue
                    p = ja.segments[a](u)
                    pts.add((round(float(p[0]) / q), round(float(p[1]) / q)))
                res.append(tuple(sorted(pts)))
        return tuple(res)

    out.append(("curves(A) x curves(B,C)", outcome(inter_obs)))
    out.append(("A==B", outcome(lambda: A == B)))
    out.append(("B in A", outcome(lambda: B in A)))
    out.append(("A in B", outcome(lambda: A in B)))
    for nm, X in ((("A", A),) if small else (("A", A), ("B", B))):
        for op in (("|", "&") if small else ("|", "&", "-", "^")):
            fn = {"|": lambda: X | C, "&": lambda: X & C, "-": lambda: X - C, "^": lambda: X ^ C}[op]
            o = outcome(fn)
            if o[0] == "ok":
                o = ("ok", shape_obs(o[1], frames["U"]))
            out.append(("%s%sC" % (nm, op), o))
    return out


def same_obs(q, x, y, rational):
    if x[0] != y[0]:
        return False
    if x[0] != "ok":
        return x == y
    a, b = x[1], y[1]
    return same_val(a, b, rational)


CLEAN_AXIS = True
CLEAN_DEPTH = [1]
LEN_TOL = [1e-9]
NUM_TOL = [1e-9]


def same_val(a, b, rational):
    if isinstance(a, tuple) and isinstance(b, tuple):
        if len(a) == 2 and a[0] == "len" and b[0] == "len":
            # sign (orientation) exactly; magnitude: a float sum of square roots (rel 1e-9
            # for polygons); for curved boundaries a 5-node quadrature per piece whose value
            # moves with the subdivision at the 1e-6 level: the library's 1e-5 working tolerance
            return (a[1] > 0) == (b[1] > 0) and abs(a[1] - b[1]) <= LEN_TOL[0] * max(abs(a[1]), abs(b[1]))
        if len(a) == 2 and a[0] in ("rat", "flt") and b[0] in ("rat", "flt"):
            if a[0] == "rat" and b[0] == "rat":
                return a == b  # exact for rational data
            return abs(float(a[1]) - float(b[1])) <= NUM_TOL[0] * max(abs(float(a[1])), abs(float(b[1])), 1e-9)
        if len(a) == 4 and len(b) == 4 and a[1] == "curved" and b[1] == "curved":
            return c08.same_region(a, b)
        if len(a) != len(b):
            return False
        return all(same_val(x, y, rational) for x, y in zip(a, b))
    return a == b


def cases(tier, seed):
    """One case per (operand set, history prefix); the case explores the sub-tree below
    its prefix breadth-first.  quick: all histories of depth <= 1 (+ depth 2 for the int
    polygons); thorough: depth 3 for the int polygons, 2 for the others, 1 for curved."""
    specs = []
    cost = {"poly-int": 2, "hollow": 5, "poly-float": 2, "curved": 20, "poly-far": 2, "compound-far": 3, "hollow-far": 3}
    for name in OPERANDS:
        if tier == "quick":
            total = 2 if name in ("poly-int", "poly-far", "compound-far", "hollow-far") else 1
        else:
            total = {"poly-int": 3, "hollow": 2, "poly-float": 2, "curved": 1, "poly-far": 3, "compound-far": 2, "hollow-far": 2}[name]
        specs.append({"id": "H:%s:root" % name, "operands": name, "prefix": [], "depth": 0, "cost": cost[name]})
        for i, ev in enumerate(EVENTS):
            if total >= 3:
                specs.append({"id": "H:%s:%s" % (name, ev), "operands": name, "prefix": [i], "depth": 0, "cost": cost[name]})
                for j, ev2 in enumerate(EVENTS):
                    specs.append({"id": "H:%s:%s;%s" % (name, ev, ev2), "operands": name, "prefix": [i, j], "depth": total - 2, "cost": cost[name] * 12})
            else:
                specs.append({"id": "H:%s:%s" % (name, ev), "operands": name, "prefix": [i], "depth": total - 1, "cost": cost[name] * (12 if total > 1 else 1), "second_transform_only": tier == "quick" and name in PARAMS})
    for sp in specs:
        sp["clean_depth"] = 1 if tier == "quick" else 99
    specs.append({"id": "config", "config": True, "cost": 100})
    return specs


def frames_for(A, B, C):
    fa, fb = c08.make_frame(A), c08.make_frame(B)
    curves = rg.interpret(A).curves() + rg.interpret(B).curves() + rg.interpret(C).curves()
    size = max(c.size() for c in curves)
    bx = (min(c.box()[0] for c in curves), min(c.box()[1] for c in curves), max(c.box()[2] for c in curves), max(c.box()[3] for c in curves))
    return {"A": fa, "B": fb, "U": (bx, size)}


def check_state(name, hist):
    """Replays hist on fresh operands, then compares live vs fresh battery."""
    ea, eb, ec = OPERANDS[name]
    rational = name in ("poly-int", "hollow", "poly-far", "compound-far", "hollow-far")
    LEN_TOL[0] = 1e-5 if name == "curved" else 1e-9
    # curved pieces may be degree-reduced within the library's tolerance when split (C15)
    NUM_TOL[0] = 2e-6 if name == "curved" else 1e-9

    def live():
        A, B, C = build_operand(ea), build_operand(eb), build_operand(ec)
        for i in hist:
            st, _ = call_limited(lambda: apply_event(EVENTS[i], A, B, name), 120)
        return A, B, C

    A, B, C = live()
    sig = (rg.rep_sig(A), rg.rep_sig(B), rg.rep_sig(C))
    frames = frames_for(A, B, C)
    fA, fB, fC = rebuild(A), rebuild(B), rebuild(C)
    A0, B0, C0 = rebuild(A), rebuild(B), rebuild(C)
    small = name == "curved"
    obs_live = battery(A, B, C, frames, small)
    obs_fresh = battery(fA, fB, fC, frames, small)
    fails = []
    for (q, x), (_, y) in zip(obs_live, obs_fresh):
        if not same_obs(q, x, y, rational):
            fails.append((q, "after the history the live object answers %s, a freshly built copy answers %s" % (short(x), short(y))))
    # answers depend on the geometry, not on the subdivision the operators left behind: a
    # fresh copy whose redundant vertices have been cleaned away answers the same
    if CLEAN_AXIS and name != "curved" and len(hist) <= CLEAN_DEPTH[0]:
        cA, cB, cC = rebuild(A0), rebuild(B0), rebuild(C0)
        for X in (cA, cB, cC):
            for j in rg.all_jordans(X):
                j.clean()
        obs_clean = battery(cA, cB, cC, frames, small)
        for (q, x), (_, y) in zip(obs_live, obs_clean):
            if not same_obs(q, x, y, rational):
                fails.append(("subdivision:" + q, "the live object answers %s, a fresh copy without the redundant vertices answers %s" % (short(x), short(y))))
    # asking a question never changes the answer to a later one: the same battery again on
    # the same live objects
    second = battery(A, B, C, frames, small)
    for (q, x), (_, y) in zip(obs_live, second):
        if not same_obs(q, x, y, rational):
            fails.append(("twice:" + q, "asked twice: first %s, then %s" % (short(x), short(y))))
    return sig, fails


def short(o):
    s = repr(o)
    return s if len(s) < 160 else s[:160] + "..."


def run_config():
    env = dict(os.environ)
    env["PYTHONDONTWRITEBYTECODE"] = "1"
    procs = []
    for seed, mode in (("0", "cold"), ("1", "cold"), ("4242", "cold"), ("random", "cold"), ("0", "warm"), ("random", "warm")):
        e = dict(env)
        e["PYTHONHASHSEED"] = seed
        procs.append(((seed, mode), subprocess.Popen([sys.executable, "-m", "mc.dump_programs", "general", mode], cwd=VERIF, env=e, stdout=subprocess.PIPE, stderr=subprocess.PIPE, text=True)))
    runs = []
    for cfg, p in procs:
        out, err = p.communicate(timeout=2500)
        if p.returncode != 0:
            raise RuntimeError("dump failed: " + err[-400:])
        runs.append((cfg, out.splitlines()))
    return runs


def run_case(spec):
    import json

    if spec.get("config"):
        runs = run_config()
        base = runs[0][1]
        viols = []
        for cfg, lines in runs[1:]:
            for x, y in zip(base, lines):
                if x != y:
                    ex = json.loads(x)["expr"]
                    viols.append({"case_id": "config %s/%s vs 0/cold :: %s" % (cfg[0] if cfg[0] != "random" else "random", cfg[1], ex), "what": "%s | %s" % (x[:120], y[:120]), "replay": {"id": "replay:config", "config": True}})
                    break
        return {"violations": viols, "evals": len(base) * len(runs), "nontrivial": ["cfg:%d" % i for i in range(len(base))], "states": len(runs), "transitions": len(base) * len(runs), "hist": {"config-runs": len(runs), "config-programs": len(base)}, "sample": {"configs": [list(c) for c, _ in runs]}}
    name = spec["operands"]
    prefix = spec["prefix"]
    CLEAN_DEPTH[0] = spec.get("clean_depth", 1)
    viols = []
    hist_counts = {}
    nontrivial = []

    def build(h):
        return check_state(name, prefix + h)

    def canon(state):
        return state[0]

    def invariant(state, h):
        return state[1]

    if spec.get("history") is not None:
        state = check_state(name, spec["history"])
        res = {"states": 1, "transitions": 1, "violations": [(spec["history"][len(prefix):], t, m) for t, m in state[1]], "max_depth": 0, "capped": False}
    else:
        far = name in PARAMS
        transforms = {EVENTS.index(e) for e in ("move(A)", "scale(A)", "rotate(A)", "flip(A)")}

        def enabled(h, ev):
            # far sets, quick tier: the second event is a transformation (warm caches, then move)
            if far and spec.get("second_transform_only") and len(prefix) + len(h) >= 1:
                return ev in transforms
            return True

        res = explore.bfs(build, list(range(len(EVENTS))), canon, invariant, spec["depth"], enabled=enabled)
    seen = set()
    for h, tag, msg in res["violations"]:
        full = prefix + h if spec.get("history") is None else spec["history"]
        hid = "%s : %s :: %s" % (name, " ; ".join(EVENTS[i] for i in full) or "(initial)", tag)
        if hid in seen:
            continue
        seen.add(hid)
        hist_counts["fail:" + tag.split(":")[0]] = hist_counts.get("fail:" + tag.split(":")[0], 0) + 1
        viols.append({"case_id": hid, "what": msg, "replay": {"id": "replay:" + hid, "operands": name, "prefix": prefix, "depth": 0, "history": full}})
    return {
        "violations": viols,
        "evals": res["transitions"] + 1,
        "nontrivial": ["%s:%s:%d" % (name, prefix, i) for i in range(res["states"])],
        "states": res["states"],
        "transitions": res["transitions"] + 1,
        "hist": hist_counts,
        "sample": {"operands": name, "history": [EVENTS[i] for i in prefix], "then": "battery on live objects vs fresh copies"},
    }
