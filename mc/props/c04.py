"""C04 Area and polynomial moments equal the true integrals over the region.

Exhaustive families of shapes x exponent grid; the reference value is the closed-form
boundary integral computed exactly (polynomial in t, integrated coefficient-wise)."""
from fractions import Fraction as F

from .. import alphabets as al
from .. import opcheck as oc
from .. import progs
from .. import refgeo as rg
from ..runner import call_limited, exc_str

ID = "C04"
LEVEL = "exploration"
RULE = (
    "all lattice triangles in {0..3}^2 (516) and all simple lattice quadrilaterals in {0,1,2}^2 (94), the P/PC "
    "polygon alphabets and the curved Q alphabet (quadratic circles ndiv 4..16, lens, cubic blob, mixed-degree "
    "rounded square), each in both orientations and in int / Fraction / float variants, x all exponents a+b <= 4 "
    "(thorough: <= 6): IntegrateShape.polynomial, IntegrateShape.area, float(S), IntegrateJordan.area/vertical "
    "against exact closed-form integrals; exact equality and int/Fraction type for rational polygons, rel 1e-12 "
    "for float polygons, rel 1e-10 for the area of curved shapes, 1e-6*size^(a+b+2) for their higher moments (quadrature accuracy "
    "an order below the 1e-5 of C05). non-trivial = every (shape, exponent) pair with a+b>0 or curved; "
    "distinct = distinct (shape, a, b)."
)
ASSUMPTIONS = ["exact polynomial integration in mc/refgeo.py; float control points taken at their exact rational value"]
CASE_TIMEOUT = 600


def exps(tier):
    n = 4 if tier == "quick" else 6
    return [(a, b) for a in range(n + 1) for b in range(n + 1 - a)]


def cases(tier, seed):
    specs = []
    fam = []
    variants = ("int", "frac", "float")
    nT3 = len(al.T3)
    for i in range(nT3):
        if tier == "thorough" or i % 6 == seed % 6:
            for v in variants:
                fam.append(["L", "T3.%d#%s" % (i, v)])
                fam.append(["L", "T3.%d#%s@cw" % (i, v)])
    for i in range(len(al.Q3())):
        if tier == "thorough" or i % 3 == seed % 3:
            for v in variants:
                fam.append(["L", "Q3.%d#%s" % (i, v)])
                fam.append(["L", "Q3.%d#%s@cw" % (i, v)])
    for v in variants + ("mixed",):
        fam += progs.p_shapes(v)
        fam += progs.pc_shapes(v) if v != "mixed" else []
    for q in al.Q_ORDER + ["tear", "tearg", "halfc8", "ilens", "iarch"]:
        fam.append(["L", "Q." + q])
        fam.append(["L", "Q." + q + "@cw"])
    for q in al.Q_ORDER:
        fam.append(["G", "Q." + q])
        fam.append(["G", "Q." + q + "@cw"])
    # tiny shapes: the integrals are far below any absolute tolerance and must still be right
    fam += [["SCL", "Q." + q, "1/1024"] for q in ("c8", "lens", "blob", "mixg", "ftri")]
    fam += [["V", [[0, 0], ["1/10", 0], [0, "1/10"]]], ["V", [["1/1000", "1/1000"], ["3/1000", "1/1000"], ["2/1000", "4/1000"]]], ["V", [[0.0, 0.0], [1e-5, 0.0], [1e-5, 1e-5], [0.0, 1e-5]]]]
    fam += [["SP", ["L", "P.triA#int"]], ["SP", ["L", "Q.mixg"]], ["SP", ["PC", "hollow", "frac"]], ["SP", ["L", "Q.blob@cw"]]]
    fam += [["CQ", "ringc"], ["CQ", "twoc"], ["CQ", "xringc"]]
    for n in range(0, len(fam), 24):
        chunk = fam[n : n + 24]
        specs.append({"id": "m:%d:%s" % (n, al.expr_id(chunk[0])), "shapes": chunk, "tier": tier})
    return specs


def build(e):
    from .. import lib

    return al.lib_eval(e)


def name(e):
    return al.expr_id(e)


def run_case(spec):
    from .. import lib

    hist, viols, nontrivial = {}, [], []
    evals = 0
    for e in spec["shapes"]:
        S = build(e)
        reg = rg.interpret(S)
        curves = reg.curves()
        maxdeg = max(len(s) - 1 for c in curves for s in c.segs)
        rational = all(rg.typecode(p._x) in ("i", "F") and rg.typecode(p._y) in ("i", "F") for j in S.jordans for sg in j.segments for p in sg.ctrlpoints)
        size = max(max(abs(p[0]), abs(p[1])) for c in curves for s in c.segs for p in s)
        size = max(size, F(1, 1000))
        sid = name(e)
        hist["deg%d:%s" % (maxdeg, "rational" if rational else "float")] = hist.get("deg%d:%s" % (maxdeg, "rational" if rational else "float"), 0) + 1
        rep = {"id": "replay:" + sid, "shapes": [e], "tier": spec["tier"]}

        def compare(tag, got, ref, a, b, degs):
            """degs: list of segment degrees integrated."""
            if rational and maxdeg == 1:
                if rg.typecode(got) not in ("i", "F") or rg.ex(got) != ref:
                    return "%s(%d,%d) = %r (%s), exact value %s" % (tag, a, b, got, rg.typecode(got), ref)
                return None
            if maxdeg == 1:
                tol = F(1, 10**12) * max(abs(ref), size ** (a + b + 2) * F(1, 1000))
            else:
                # the area is exact up to rounding; for higher moments "quadrature accuracy" has to
                # be at least an order better than the 1e-5 the measure identities of C05 rely on
                if a + b == 0:
                    tol = F(1, 10**10) * max(abs(ref), size ** 2 * F(1, 1000))
                else:
                    tol = F(1, 10**6) * size ** (a + b + 2)
            if abs(rg.ex(got) - ref) > tol:
                return "%s(%d,%d) = %r, exact value %s (tolerance %.3g)" % (tag, a, b, got, float(ref), float(tol))
            return None

        degs = sorted({len(s) - 1 for c in curves for s in c.segs})
        for a, b in exps(spec["tier"]):
            evals += 1
            nontrivial.append((sid, a, b))
            st, got = call_limited(lambda: lib.IntegrateShape.polynomial(S, a, b), 60)
            if st != "ok":
                viols.append({"case_id": "%s :: polynomial(%d,%d) noresult" % (sid, a, b), "what": "hangs" if st == "timeout" else "raises " + exc_str(got), "replay": rep})
                continue
            msg = compare("polynomial", got, reg.boundary_moment(a, b), a, b, degs)
            if msg:
                viols.append({"case_id": "%s :: polynomial(%d,%d)" % (sid, a, b), "what": msg, "replay": rep})
        ref_area = reg.boundary_moment(0, 0)
        for tag, fn in (("IntegrateShape.area", lambda: lib.IntegrateShape.area(S)), ("float(S)", lambda: float(S))):
            st, got = call_limited(fn, 60)
            evals += 1
            if st != "ok":
                viols.append({"case_id": "%s :: %s noresult" % (sid, tag), "what": exc_str(got) if st == "raise" else "hangs", "replay": rep})
                continue
            if tag == "float(S)":
                if type(got) is not float or abs(F(got) - ref_area) > F(1, 10**10) * max(abs(ref_area), F(1, 10**6)):
                    viols.append({"case_id": "%s :: float(S)" % sid, "what": "float(S) = %r, area %s" % (got, float(ref_area)), "replay": rep})
            else:
                msg = compare("area", got, ref_area, 0, 0, degs)
                if msg:
                    viols.append({"case_id": "%s :: area" % sid, "what": msg, "replay": rep})
        # per curve integrals
        for k, j in enumerate(S.jordans):
            c = rg.jordan_curve(j)
            jd = sorted({len(s) - 1 for s in c.segs})
            st, got = call_limited(lambda: lib.IntegrateJordan.area(j), 60)
            evals += 1
            msg = compare("IntegrateJordan.area", got, c.area(), 0, 0, jd) if st == "ok" else st
            if msg:
                viols.append({"case_id": "%s :: jordan%d.area" % (sid, k), "what": str(msg), "replay": rep})
            for a, b in ((1, 0), (0, 1), (2, 1), (1, 2)):
                ref = sum((rg.seg_vertical(s, a, b) for s in c.segs), F(0))
                st, got = call_limited(lambda: lib.IntegrateJordan.vertical(j, a, b), 60)
                evals += 1
                # vertical(a, b) integrates x^a y^b dy: same rule as polynomial(a-1, b)
                msg = compare("IntegrateJordan.vertical", got, ref, a - 1, b, jd) if st == "ok" else st
                if msg:
                    viols.append({"case_id": "%s :: jordan%d.vertical(%d,%d)" % (sid, k, a, b), "what": str(msg), "replay": rep})
        # complement: m(~S) = -m(S)
        st, N = call_limited(lambda: ~S, 60)
        if st == "ok":
            for a, b in ((0, 0), (1, 0), (1, 1), (0, 2)):
                evals += 1
                m1 = lib.IntegrateShape.polynomial(S, a, b)
                m2 = lib.IntegrateShape.polynomial(N, a, b)
                if rational and maxdeg == 1:
                    ok = m1 == -m2
                else:
                    ok = abs(rg.ex(m1) + rg.ex(m2)) <= F(1, 10**11) * max(abs(rg.ex(m1)), size ** (a + b + 2) * F(1, 1000))
                if not ok:
                    viols.append({"case_id": "%s :: complement(%d,%d)" % (sid, a, b), "what": "m(S)=%r but m(~S)=%r" % (m1, m2), "replay": rep})
    return {"violations": viols, "evals": evals, "nontrivial": nontrivial, "hist": hist, "sample": {"shape": name(spec["shapes"][0]), "exponents": exps(spec["tier"])[:6]}}


def finalize(results, cov):
    h = cov["outcome_histogram"]
    need = ["deg1:rational", "deg1:float", "deg2:float", "deg3:float"]
    return ["vacuity: bucket %s empty" % k for k in need if not h.get(k)]
