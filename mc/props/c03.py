"""C03 `B in A` for curves and shapes means subset.

All ordered pairs of a finite shape alphabet (every kind, both orientations, Empty, Whole)
and all boundary curves against all shapes with both boundary flags.  For polygons the
oracle is complete: B is a subset of cl(A) iff no face of the joint line arrangement is
IN B and OUT A; a curve is split at its exact contacts with the boundary of A and every
open piece is classified."""
from fractions import Fraction as F

from .. import alphabets as al
from .. import opcheck as oc
from .. import progs
from .. import refgeo as rg
from ..runner import call_limited, exc_str

ID = "C03"
LEVEL = "exploration"
RULE = (
    "all ordered pairs (A, B) over the alphabet {P both orientations, PC composites, Empty, Whole} "
    "(+ numeric variants, + warm objects with a past, + touching configurations incl. chords between two vertices of a non-convex shape, "
    "+ one slice of the 5776 lattice-triangle pairs), `B in A` compared with the exact "
    "subset relation decided on all faces of the joint line arrangement; every boundary curve of the alphabet "
    "(+ touching quadrilaterals) against every shape with boundary=True/False compared with the exact "
    "piecewise classification; consequences A in A, B in A => A|B == A and A&B == B (region_sig). "
    "non-trivial = the two shapes' boxes overlap (no box short-cut); distinct = distinct ordered pair."
)
ASSUMPTIONS = ["reference subset relation is exact for polygons (mc/refgeo.py); curved pairs are covered in C02/C12 tiers"]
CASE_TIMEOUT = 600

TOUCH = [
    # all four vertices on the boundary of the square (0,0)-(4,4)
    ("rhomb-in-sq", [(2, 0), (4, 2), (2, 4), (0, 2)], [(0, 0), (4, 0), (4, 4), (0, 4)]),
    # vertices on the boundary, edges outside: square around the rhombus
    ("sq-around-rhomb", [(0, 0), (4, 0), (4, 4), (0, 4)], [(2, 0), (4, 2), (2, 4), (0, 2)]),
    ("tri-touch-edge", [(1, 0), (3, 0), (2, 2)], [(0, 0), (4, 0), (4, 4), (0, 4)]),
    ("same-square", [(0, 0), (4, 0), (4, 4), (0, 4)], [(0, 0), (4, 0), (4, 4), (0, 4)]),
    ("inner-corner", [(0, 0), (2, 0), (2, 2), (0, 2)], [(0, 0), (4, 0), (4, 4), (0, 4)]),
    ("cross-through-vertices", [(2, -2), (6, 2), (2, 6), (-2, 2)], [(0, 0), (4, 0), (4, 4), (0, 4)]),
    # an edge of the curve runs from one vertex of a non-convex shape to another, through the outside
    ("chord-over-notch", [(0, 0), (2, 1), (1, 2)], [(0, 0), (2, 0), (2, 1), (1, 1), (1, 2), (0, 2)]),
    ("chord-over-notch-2", [(2, 1), (1, 2), (0, 0)], [(0, 0), (2, 0), (2, 1), (1, 1), (1, 2), (0, 2)]),
    # ... and through the inside of a hole: the diagonal of the removed square
    ("diagonal-of-hole", [(0, 0), (2, -1), (1, 1)], [(0, 0), (0, 1), (1, 1), (1, 0)]),
    ("chord-edge-midpoints", [("1/2", "1/2"), ("3/2", 1), (1, "3/2")], [(0, 0), (2, 0), (2, 1), (1, 1), (1, 2), (0, 2)]),
]


def alphabet(tier):
    shapes = progs.p_shapes() + progs.pc_shapes() + [["E"], ["W"]]
    return shapes


def cases(tier, seed):
    specs = []
    shapes = alphabet(tier)
    for a in shapes:
        specs.append({"id": "in:%s" % al.expr_id(a), "A": a, "Bs": shapes})
    for v in ("frac", "float") if tier == "quick" else ("frac", "float", "mixed", "fint"):
        vs = progs.p_shapes(v, progs.QUICK_P) + progs.pc_shapes(v, progs.QUICK_PC)
        for a in vs:
            specs.append({"id": "in:%s" % al.expr_id(a), "A": a, "Bs": vs})
    for t in TOUCH:
        a, b = ["V", [list(p) for p in t[2]]], ["V", [list(p) for p in t[1]]]
        specs.append({"id": "touch:" + t[0], "A": a, "Bs": [b, ["~", b]]})
        specs.append({"id": "touch~:" + t[0], "A": ["~", a], "Bs": [b, ["~", b]]})
    warm = [["WL", "P.%s#int" % n] for n in al.P_ORDER]
    for a in warm:
        specs.append({"id": "in:%s" % al.expr_id(a), "A": a, "Bs": warm + progs.p_shapes(names=["big", "inner", "far", "sqA"])})
    tt = progs.pairs_tt(tier, seed, k=8)
    for n in range(0, len(tt), 40):
        chunk = tt[n : n + 40]
        specs.append({"id": "tt:%s,%s..%d" % (chunk[0][0][1], chunk[0][1][1], len(chunk)), "pairs": [list(p) for p in chunk]})
    # curves against shapes
    curve_srcs = progs.p_shapes(both=False) + [["V", t[1]] for t in TOUCH] + [["WL", "P.%s#int" % n] for n in ("sqA", "triA", "inner", "far")]
    extra = []
    for t in TOUCH:
        for e in (["V", t[2]], ["~", ["V", t[2]]]):
            if e not in extra:
                extra.append(e)
    for a in shapes[:-2] + extra:
        specs.append({"id": "jin:%s" % al.expr_id(a), "A": a, "Js": curve_srcs})
    # curved tier: simple curved shapes (both orientations) against each other; the reference subset
    # relation is decided by dense exact sampling of both boundaries
    cq = ["ilens", "bulgesq", "c6", "tinysq", "c16", "c8s", "outsq", "fsq", "lens"]
    cshapes = [["L", "Q." + q] for q in cq] + [["L", "Q." + q + "@cw"] for q in ("ilens", "c6", "c16", "bulgesq")]
    for a in cshapes:
        specs.append({"id": "cin:%s" % al.expr_id(a), "A": a, "Bs": cshapes, "curved": True, "cost": 5})
    return specs


def subset_ref_curved(ra, rb):
    """rb subset of cl(ra) for SIMPLE curved regions, by sampling: every sampled point of
    the boundary of B is IN or ON A, no sampled point of the boundary of A is strictly IN B,
    and (orientation) one interior witness.  None when a sample is too close to call."""
    import itertools

    ca, cb = ra.curves()[0], rb.curves()[0]
    size = max(ca.size(), cb.size())
    for sg in cb.segs:
        for k in range(33):
            q = rg.bez_eval(sg, F(k, 32))
            v = ra.contains(q, size / 10**7)
            if v == rg.OUT:
                return False
    for sg in ca.segs:
        for k in range(33):
            q = rg.bez_eval(sg, F(k, 32))
            if rb.contains(q, size / 10**7) == rg.IN:
                return False
    # the boundaries are compatible with B inside A: decide with interior witnesses of B
    bx = cb.box()
    wits = []
    for i in range(1, 16):
        for j in range(1, 16):
            w = (bx[0] + (bx[2] - bx[0]) * F(i, 16) + size / 9973, bx[1] + (bx[3] - bx[1]) * F(j, 16) + size / 9967)
            if rb.contains(w, size / 10**7) == rg.IN and not cb.near(w, size / 1000) and not ca.near(w, size / 1000):
                wits.append(w)
    if cb.area() < 0:  # B unbounded: far points belong to it
        ax = ca.box()
        wits.append((max(bx[2], ax[2]) + 10 * size, max(bx[3], ax[3]) + 7 * size))
    if not wits:
        return None
    return all(ra.contains(w, size / 10**7) != rg.OUT for w in wits[:60])


def subset_ref(ra, rb, curves):
    """True iff region rb is a subset of the closure of ra (polygonal, exact)."""
    if not curves:
        return not (rb.contains((F(0), F(0))) == rg.IN and ra.contains((F(0), F(0))) == rg.OUT)
    for w in rg.witnesses_for(curves):
        if rb.contains(w) == rg.IN and ra.contains(w) == rg.OUT:
            return False
    return True


def curve_pieces(jc, acurves):
    """Splits polygonal curve jc at all its contacts with the polygonal curves acurves.
    Returns (midpoints of open pieces, has_contact)."""
    mids = []
    contact = False
    for s in jc.segs:
        a, b = s
        ts = {F(0), F(1)}
        for c in acurves:
            for r in c.segs:
                x = rg.seg_seg(a, b, r[0], r[1])
                if x is None:
                    continue
                contact = True
                if x[0] == "overlap":
                    ts.update(x[1])
                else:
                    ts.add(x[1])
        ts = sorted(ts)
        for t0, t1 in zip(ts[:-1], ts[1:]):
            t = (t0 + t1) / 2
            mids.append((a[0] + t * (b[0] - a[0]), a[1] + t * (b[1] - a[1])))
    return mids, contact


def curve_in_ref(ra, jc, boundary):
    acurves = ra.curves()
    mids, contact = curve_pieces(jc, acurves)
    vals = [ra.contains(m) for m in mids]
    if boundary:
        return all(v in (rg.IN, rg.ON) for v in vals)
    return (not contact) and all(v == rg.IN for v in vals)


def boxes_overlap(ca, cb):
    if not ca or not cb:
        return False
    xa = [c.box() for c in ca]
    xb = [c.box() for c in cb]
    a = (min(b[0] for b in xa), min(b[1] for b in xa), max(b[2] for b in xa), max(b[3] for b in xa))
    b = (min(b[0] for b in xb), min(b[1] for b in xb), max(b[2] for b in xb), max(b[3] for b in xb))
    return not (a[2] < b[0] or b[2] < a[0] or a[3] < b[1] or b[3] < a[1])


def check_pair(ea, eb, hist, viols, nontrivial):
    pid = "%s in %s" % (al.expr_id(eb), al.expr_id(ea))
    ra, rb = al.model_eval(ea), al.model_eval(eb)
    curves = ra.curves() + rb.curves()
    if all(c.is_poly for c in curves):
        expect = subset_ref(ra, rb, curves)
    else:
        expect = subset_ref_curved(ra, rb)
        if expect is None:
            hist["curved-undecided"] = hist.get("curved-undecided", 0) + 1
            return
    A, B = al.lib_eval(ea), al.lib_eval(eb)
    st, got = call_limited(lambda: B in A, 60)
    hist["expect:%s" % expect] = hist.get("expect:%s" % expect, 0) + 1
    if boxes_overlap(ra.curves(), rb.curves()):
        nontrivial.append(pid)
    rep = {"id": "replay:" + pid, "A": ea, "Bs": [eb]}
    if st != "ok":
        viols.append({"case_id": pid + " :: noresult", "what": "hangs" if st == "timeout" else "raises " + exc_str(got), "replay": rep})
        return
    if not isinstance(got, bool):
        viols.append({"case_id": pid + " :: type", "what": "`in` returned %r" % (got,), "replay": rep})
    if bool(got) != expect:
        viols.append({"case_id": pid + " :: subset", "what": "`B in A` is %r but region B is%s a subset of cl(A)" % (got, "" if expect else " not"), "replay": rep})
        return
    if expect and all(c.is_poly for c in curves) and rg.kind_of(A) not in ("EmptyShape", "WholeShape") and rg.kind_of(B) not in ("EmptyShape", "WholeShape"):
        # consequences on fresh objects
        A2, B2 = al.lib_eval(ea), al.lib_eval(eb)
        st, U = call_limited(lambda: A2 | B2, 60)
        if st != "ok" or rg.region_sig(U) != rg.region_sig(al.lib_eval(ea)):
            viols.append({"case_id": pid + " :: union", "what": "B in A holds but A|B does not denote A (%s)" % (st if st != "ok" else rg.kind_of(U)), "replay": rep})
        A3, B3 = al.lib_eval(ea), al.lib_eval(eb)
        st, I = call_limited(lambda: A3 & B3, 60)
        if st != "ok" or rg.region_sig(I) != rg.region_sig(al.lib_eval(eb)):
            viols.append({"case_id": pid + " :: intersection", "what": "B in A holds but A&B does not denote B (%s)" % (st if st != "ok" else rg.kind_of(I)), "replay": rep})


def check_curve(ea, ej, hist, viols, nontrivial):
    ra = al.model_eval(ea)
    jc = al.model_eval(ej).curves()[0]
    for boundary in (True, False):
        pid = "curve(%s) in %s boundary=%s" % (al.expr_id(ej), al.expr_id(ea), boundary)
        expect = curve_in_ref(ra, jc, boundary)
        A = al.lib_eval(ea)
        J = al.lib_eval(ej).jordans[0]
        st, got = call_limited(lambda: A.contains_jordan(J, boundary), 60)
        hist["curve-expect:%s" % expect] = hist.get("curve-expect:%s" % expect, 0) + 1
        rep = {"id": "replay:" + pid, "A": ea, "Js": [ej]}
        if boxes_overlap(ra.curves(), [jc]):
            nontrivial.append(pid)
        if st != "ok":
            viols.append({"case_id": pid + " :: noresult", "what": "hangs" if st == "timeout" else "raises " + exc_str(got), "replay": rep})
            continue
        if bool(got) != expect:
            viols.append({"case_id": pid + " :: curve", "what": "contains_jordan is %r, exact answer %r" % (got, expect), "replay": rep})
        if boundary:
            A = al.lib_eval(ea)
            st, got2 = call_limited(lambda: J in A, 60)
            if st != "ok" or bool(got2) != expect:
                viols.append({"case_id": pid + " :: curve-in", "what": "`J in A` gives %r, exact answer %r" % (got2 if st == "ok" else st, expect), "replay": rep})


def run_case(spec):
    hist = {}
    viols, nontrivial = [], []
    evals = 0
    if "Bs" in spec:
        for eb in spec["Bs"]:
            check_pair(spec["A"], eb, hist, viols, nontrivial)
            evals += 1
    if "pairs" in spec:
        for x, y in spec["pairs"]:
            check_pair(x, y, hist, viols, nontrivial)
            check_pair(y, x, hist, viols, nontrivial)
            check_pair(["L", x[1] + "@cw"], y, hist, viols, nontrivial)
            check_pair(["L", x[1] + "@cw"], ["L", y[1] + "@cw"], hist, viols, nontrivial)
            evals += 4
    if "Js" in spec:
        for ej in spec["Js"]:
            check_curve(spec["A"], ej, hist, viols, nontrivial)
            evals += 2
    return {"violations": viols, "evals": evals, "nontrivial": nontrivial, "hist": hist, "sample": {"A": al.expr_id(spec["A"]) if "A" in spec else spec["id"]}}


def finalize(results, cov):
    h = cov["outcome_histogram"]
    errs = []
    for k in ("expect:True", "expect:False", "curve-expect:True", "curve-expect:False"):
        if not h.get(k):
            errs.append("vacuity: bucket %s empty" % k)
    return errs
