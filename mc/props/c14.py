"""C14 Curve intersection reports exactly the crossings, with the documented encoding.

All ordered pairs of a closed-curve alphabet x all flag combinations; the reference is the
exact segment-segment intersection for polygons and recursive box subdivision for curved
pieces."""
from fractions import Fraction as F
from itertools import product

from .. import alphabets as al
from .. import opcheck as oc
from .. import progs
from .. import refgeo as rg
from ..runner import call_limited, exc_str

ID = "C14"
LEVEL = "exploration"
RULE = (
    "all ordered pairs of closed curves from {boundaries of the 11 P polygons (int, Fraction, float), one slice of "
    "the lattice-triangle pairs, curves sharing a segment / identical / reversed / rotated copies, the curved Q "
    "alphabet (circles of 4..16 arcs, lens, cubic blob, mixed-degree rounded square, float polygons)} x "
    "(equal_beziers, end_points) in {T,F}^2 and A & B: tuple ranges, A.segments[a](u) == B.segments[b](v) (exact for "
    "lines, 1e-6 curved), every reference crossing reported (each exactly once up to the end-point duplicates), even "
    "count in general position, swap symmetry, (None, None) iff the two segments are the same Bezier, flags filter "
    "exactly the documented entries; for 10 curves the same after the two curve objects have been intersected, moved / rotated in "
    "place and intersected again. non-trivial = the curves meet; distinct = ordered pair."
)
ASSUMPTIONS = ["curved reference crossings by box subdivision to 1e-11 (mc/refgeo.py); tangential contacts are not in the alphabets"]
CASE_TIMEOUT = 900

SPECIAL = {
    "sq": [(0, 0), (4, 0), (4, 4), (0, 4)],
    "sq-rot": [(4, 0), (4, 4), (0, 4), (0, 0)],
    "sq-rev": [(0, 0), (0, 4), (4, 4), (4, 0)],
    "sq-right": [(4, 0), (8, 0), (8, 4), (4, 4)],  # shares the edge x=4 (reversed direction)
    "sq-shift": [(2, 0), (6, 0), (6, 4), (2, 4)],  # collinear overlapping edges
    "tri-share": [(0, 0), (4, 0), (2, -3)],  # shares the edge (0,0)-(4,0) reversed
    "tri-same-dir": [(0, 0), (4, 0), (2, 3)],  # shares the edge (0,0)-(4,0) same direction
    "sq-split": [(0, 0), (2, 0), (4, 0), (4, 4), (0, 4)],  # same square, one edge split
    "dia-vertex": [(4, 2), (6, 0), (8, 2), (6, 4)],  # touches sq at the edge point (4,2) with a vertex
    "cross-vertex": [(2, -2), (6, 2), (2, 6), (-2, 2)],  # passes through the corners (4,0),(4,4)? no: through (0,0)-(4,4) diag
}


def curve_exprs(tier, seed):
    out = []
    for v in ("int", "frac", "float"):
        out += progs.p_shapes(v, both=False)
    out += [["V", vs] for vs in SPECIAL.values()]
    return out


def cases(tier, seed):
    specs = []
    polys = curve_exprs(tier, seed)
    if tier == "quick":
        polys = [p for p in polys if p[0] == "V" or any(n in p[1] for n in ("sqA", "sqB", "triA", "bar", "dia", "L#", "U#"))]
    for a in polys:
        specs.append({"id": "poly:%s" % al.expr_id(a), "A": a, "Bs": polys})
    # the same objects intersected, transformed in place, intersected again
    hp = [p for p in polys if p[0] == "L" and p[1].endswith(("#int", "#float"))][:8] + [["L", "Q.c8"], ["L", "Q.lens"]]
    for warm in ("move", "rotate", "far-move"):
        for a in hp:
            specs.append({"id": "warm-%s:%s" % (warm, al.expr_id(a)), "A": a, "Bs": hp, "warm": warm})
    tt = progs.pairs_tt(tier, seed, k=16)
    for n in range(0, len(tt), 60):
        chunk = tt[n : n + 60]
        specs.append({"id": "tt:%s,%s" % (chunk[0][0][1], chunk[0][1][1]), "pairs": [list(p) for p in chunk]})
    # curved boundaries with integer control points against integer polygons (crossing parameters
    # that are not nice fractions)
    ic = [["L", "Q." + q] for q in ("iarch", "ibox", "ikite", "ilens")]
    for a in ic:
        specs.append({"id": "intcurved:%s" % a[1], "A": a, "Bs": ic, "timeout": 1500})
    # segments of different degrees that start with the same control points / share whole sides
    cp = [["L", "Q." + q] for q in ("cpsq", "cprs", "cpcub", "cplens")]
    for a in cp:
        specs.append({"id": "sharedctrl:%s" % a[1], "A": a, "Bs": cp, "timeout": 300})
    # the same curved drawings in millimetres instead of metres (1/1024) and magnified (x 4096)
    for fac in ("1/1024", "4096"):
        sc = [["SCL", "Q." + q, fac] for q in ("c8", "lens", "blob", "ftri", "c16b", "mixg")]
        for a in sc:
            specs.append({"id": "scaled:%s:%s" % (fac, a[1]), "A": a, "Bs": sc, "timeout": 1500})
    qn = al.Q_ORDER if tier == "thorough" else ["c16", "c8", "c4", "lens", "blob", "rsq", "fsq", "ftri"]
    qs = [["L", "Q." + q] for q in qn]
    for a in qs:
        specs.append({"id": "curved:%s" % a[1], "A": a, "Bs": qs, "timeout": 1500})
    return specs


def lib_point(seg, t):
    p = seg(t)
    return (rg.ex(p[0]), rg.ex(p[1]))


def reference_contacts(ca, cb):
    """dict (i, j) -> list of (t, u) reference crossing parameters; set of (i,j) equal
    segments; set of (i, j) overlapping (collinear, sharing more than a point)."""
    pts, equal, overlap = {}, set(), set()
    for i, s in enumerate(ca.segs):
        for j, r in enumerate(cb.segs):
            if s == r:
                equal.add((i, j))
                continue
            xs = rg.bez_bez_crossings(s, r)
            for x in xs:
                if x[0] == "overlap":
                    overlap.add((i, j))
                    continue
                # only transversal contacts must be reported: tangents not parallel
                da = rg.bez_eval(rg.bez_deriv(s), x[0])
                db = rg.bez_eval(rg.bez_deriv(r), x[1])
                cr = da[0] * db[1] - da[1] * db[0]
                na2 = da[0] ** 2 + da[1] ** 2
                nb2 = db[0] ** 2 + db[1] ** 2
                if cr * cr * 10**6 <= na2 * nb2:  # |sin angle| <= 1e-3: tangential / collinear
                    continue
                pts.setdefault((i, j), []).append(x)
    return pts, equal, overlap


def judge_pair(ea, eb, hist, viols, nontrivial, warm=None):
    pid = "%s x %s" % (al.expr_id(ea), al.expr_id(eb))
    A, B = al.lib_eval(ea).jordans[0], al.lib_eval(eb).jordans[0]
    if warm is not None:
        # the same curve objects have been intersected before and were then transformed in
        # place: the answer must be the one for the current geometry
        pid += " after [%s]" % warm
        A.intersection(B)
        B.intersection(A)
        if warm == "move":
            A.move(3, 2)
            B.move(-1, 0)
        elif warm == "rotate":
            A.rotate(90, degrees=True)
        elif warm == "far-move":
            A.move(100, 0)
            A.intersection(B)
            A.move(-97, 1)
    ca, cb = rg.jordan_curve(A), rg.jordan_curve(B)
    poly = ca.is_poly and cb.is_poly
    exact = poly and oc.is_exact([ca, cb])
    size = max(ca.size(), cb.size())
    ptol = F(0) if exact else size / 10**6
    rep = {"id": "replay:" + pid, "A": ea, "Bs": [eb], "warm": warm}

    def fail(tag, msg):
        viols.append({"case_id": "%s :: %s" % (pid, tag), "what": msg, "replay": rep})

    results = {}
    for eq, ep in product((True, False), repeat=2):
        st, val = call_limited(lambda: A.intersection(B, equal_beziers=eq, end_points=ep), 300)
        if st != "ok":
            fail("noresult", "intersection(equal_beziers=%s, end_points=%s) %s" % (eq, ep, "hangs" if st == "timeout" else "raises " + exc_str(val)))
            return
        results[(eq, ep)] = tuple(val)
    st, amp = call_limited(lambda: A & B, 300)
    st2, swapped = call_limited(lambda: B.intersection(A), 300)
    if st != "ok" or st2 != "ok":
        fail("noresult", "A & B or B.intersection(A) does not return")
        return
    full = results[(True, True)]
    na, nb = len(A.segments), len(B.segments)
    pts, equal, overlap = reference_contacts(ca, cb)
    if pts or equal or overlap:
        nontrivial.append(pid)
    hist["ref-crossing-pairs:%d" % min(len(pts), 9)] = hist.get("ref-crossing-pairs:%d" % min(len(pts), 9), 0) + 1
    # structure and point identity
    seen_none = set()
    for tup in full:
        if len(tup) != 4:
            fail("encoding", "tuple %r" % (tup,))
            return
        a, b, u, v = tup
        if not (isinstance(a, int) and isinstance(b, int) and 0 <= a < na and 0 <= b < nb):
            fail("encoding", "indices out of range in %r" % (tup,))
            return
        if (u is None) != (v is None):
            fail("encoding", "half-None tuple %r" % (tup,))
            return
        if u is None:
            seen_none.add((a, b))
            continue
        if not (0 <= u <= 1 and 0 <= v <= 1):
            fail("encoding", "parameter out of [0,1] in %r" % (tup,))
            return
        pa, pb = lib_point(A.segments[a], u), lib_point(B.segments[b], v)
        if abs(pa[0] - pb[0]) > ptol or abs(pa[1] - pb[1]) > ptol:
            fail("point", "A.segments[%d](%s) = %s but B.segments[%d](%s) = %s" % (a, u, oc.fmt_pt(pa), b, v, oc.fmt_pt(pb)))
            return
    # (None, None) iff same Bezier
    if seen_none != equal:
        extra = sorted(seen_none - equal)[:3]
        missing = sorted(equal - seen_none)[:3]
        fail("none-marker", "(None, None) reported for segment pairs %s that are not identical; missing for identical %s" % (extra, missing))
    # completeness / no duplicates
    ttol = F(0) if exact else F(1, 10**5)
    got = {}
    for a, b, u, v in full:
        if u is not None:
            got.setdefault((a, b), []).append((rg.ex(u), rg.ex(v)))
    for key, refs in pts.items():
        if key in overlap:
            continue
        for t, u in refs:
            cands = [g for g in got.get(key, []) if abs(g[0] - t) <= ttol and abs(g[1] - u) <= ttol]
            if len(cands) != 1:
                fail("completeness", "reference contact of segments %s at (%s, %s) is reported %d times" % (key, float(t), float(u), len(cands)))
                break
    for key, gs in got.items() if exact else ():
        # exact data only: on floats a contact within rounding of a segment end is
        # legitimately reported (the point identity above is what the property demands)
        refs = [x for x in rg.bez_bez_crossings(ca.segs[key[0]], cb.segs[key[1]]) if x[0] != "overlap"]
        if key in overlap or key in equal:
            continue
        for g in gs:
            if not any(abs(g[0] - t) <= max(ttol, F(1, 10**5) if not exact else 0) and abs(g[1] - u) <= max(ttol, F(1, 10**5) if not exact else 0) for t, u in refs):
                fail("spurious", "tuple %s of segments %s is not a contact of the curves" % ((float(g[0]), float(g[1])), key))
                break
    # even number of transversal crossings in general position (polygons)
    if poly and exact and not overlap and not equal and rg.poly_pair_general_position(ca, cb):
        interior = [t for t in results[(False, False)]]
        if len(interior) % 2:
            fail("parity", "%d crossings reported for curves in general position" % len(interior))
        hist["gp-crossings:%d" % min(len(interior), 10)] = hist.get("gp-crossings:%d" % min(len(interior), 10), 0) + 1
    # swap symmetry
    sw = tuple(sorted(((b, a, v, u) for a, b, u, v in full), key=lambda t: (t[0], t[1], -1 if t[2] is None else t[2], -1 if t[3] is None else t[3])))
    sw2 = tuple(sorted(swapped, key=lambda t: (t[0], t[1], -1 if t[2] is None else t[2], -1 if t[3] is None else t[3])))
    if exact:
        if sw != sw2:
            fail("swap", "B.intersection(A) is not the swap of A.intersection(B): %s vs %s" % (sw2[:3], sw[:3]))
    else:
        if len(sw) != len(sw2) or any(x[:2] != y[:2] or (x[2] is None) != (y[2] is None) or (x[2] is not None and (abs(x[2] - y[2]) > 1e-5 or abs(x[3] - y[3]) > 1e-5)) for x, y in zip(sw, sw2)):
            fail("swap", "B.intersection(A) is not the swap of A.intersection(B)")
    # flags

    def is_end(t):
        return t[2] is not None and not ((0 < t[2] < 1) or (0 < t[3] < 1))

    for (eq, ep), val in results.items():
        want = tuple(t for t in full if (eq or t[2] is not None) and (ep or not is_end(t)))
        if val != want:
            fail("flags", "equal_beziers=%s end_points=%s returns %d tuples, the documented filter of the full list has %d" % (eq, ep, len(val), len(want)))
            break
    if tuple(amp) != results[(False, False)]:
        fail("flags", "A & B differs from intersection(equal_beziers=False, end_points=False)")
    if tuple(sorted(full, key=lambda t: (t[0], t[1], -1 if t[2] is None else t[2], -1 if t[3] is None else t[3]))) != full:
        fail("order", "result is not sorted")


def run_case(spec):
    hist, viols, nontrivial = {}, [], []
    evals = 0
    if "Bs" in spec:
        for eb in spec["Bs"]:
            judge_pair(spec["A"], eb, hist, viols, nontrivial, spec.get("warm"))
            evals += 6
    if "pairs" in spec:
        for x, y in spec["pairs"]:
            judge_pair(x, y, hist, viols, nontrivial)
            evals += 6
    # one report per (pair, tag)
    seen, out = set(), []
    for v in viols:
        if v["case_id"] not in seen:
            seen.add(v["case_id"])
            out.append(v)
    return {"violations": out, "evals": evals, "nontrivial": nontrivial, "hist": hist, "sample": spec["id"]}


def finalize(results, cov):
    h = cov["outcome_histogram"]
    errs = []
    if not any(k.startswith("gp-crossings:") and k != "gp-crossings:0" for k in h):
        errs.append("vacuity: no pair in general position with crossings")
    return errs
