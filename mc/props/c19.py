"""C19 Directly constructed composite shapes equal the ones operators build.

Explorer over all permutations of each valid subshape list (the order of the list is the
only 'history' a constructor has): every permutation must give the same kind, region,
moments, containment answers, complement and ==, equal to the operator-built shape, with
subshapes in the canonical order the rest of the library relies on."""
from fractions import Fraction as F
from itertools import permutations

from .. import alphabets as al
from .. import explore
from .. import opcheck as oc
from .. import refgeo as rg
from ..runner import call_limited, exc_str
from . import c08

ID = "C19"
LEVEL = "model_checking"
RULE = (
    "valid subshape lists (ConnectedShape: outer polygon with 1, 2, 3 holes; unbounded with 2 and 3 removed pieces; curved ring; "
    "DisjointShape: 2 and 3 polygons, a hollow component plus islands, component inside a hole, curved pair, unbounded member, lists "
    "with Empty entries, single member, empty list) in int and float, ALL permutations of each list executed on the real "
    "constructors; invariant for every permutation: same kind, same region (exact region signature), moments a+b<=2, membership "
    "on every arrangement-face witness (grid for curved) equal to the reference intersection/union, subshapes sorted by decreasing "
    "area, complement and == equal across permutations and equal to the operator-built shape, DisjointShape([S]) an unshared copy, "
    "DisjointShape([])/[Empty] is Empty. state = distinct representation; transition = one constructor call."
)
ASSUMPTIONS = ["the order among subshapes of equal area is input order by a stable sort and is deliberately not compared"]
CASE_TIMEOUT = 900

HOLE3 = [(15, -5), (18, -6), (17, -2)]


def V(v, cw=False):
    v = list(v)
    if cw:
        v = [v[0]] + v[:0:-1]
    return ["V", [list(p) for p in v]]


def Lf(name, variant, cw=False):
    return ["L", "P.%s#%s%s" % (name, variant, "@cw" if cw else "")]


def lists(variant):
    fl = variant == "float"

    def hole3(cw):
        vs = [(0.25 * x + 0.1, 0.25 * y + 0.1) for x, y in HOLE3] if fl else HOLE3
        return V(vs, cw)

    L_ = lambda n, cw=False: Lf(n, variant, cw)  # noqa: E731

    def Nn(n, cw=False):
        return ["L", "N.%s#%s%s" % (n, variant, "@cw" if cw else "")]

    def n2i(cw=False):  # N2 shrunk by about one unit: N2 minus this is a thin ring around N3
        vs = [(-8, -9), (24, -8), (25, 22), (-7, 23)]
        if fl:
            vs = [(0.25 * a + 0.1, 0.25 * b + 0.1) for a, b in vs]
        return V(vs, cw)

    def n6(cw=False):  # a quadrilateral inside N4
        vs = [(6, 6), (9, 6), (10, 9), (7, 9)]
        if fl:
            vs = [(0.25 * a + 0.1, 0.25 * b + 0.1) for a, b in vs]
        return V(vs, cw)

    def sq(x, y, cw=False, side=5):
        vs = [(x, y), (x + side, y), (x + side, y + side), (x, y + side)]
        if fl:
            vs = [(0.25 * a + 0.1, 0.25 * b + 0.1) for a, b in vs]
        return V(vs, cw)

    return {
        "C:hollow1": ("C", [L_("big"), L_("inner", True)], ["-", L_("big"), L_("inner")]),
        "C:hollow2": ("C", [L_("big"), L_("inner", True), L_("notch", True)], ["-", ["-", L_("big"), L_("inner")], L_("notch")]),
        "C:hollow3": ("C", [L_("big"), L_("inner", True), L_("notch", True), hole3(True)], ["-", ["-", ["-", L_("big"), L_("inner")], L_("notch")], hole3(False)]),
        "C:unbounded2": ("C", [L_("inner", True), L_("far", True)], ["~", ["|", L_("inner"), L_("far")]]),
        "C:unbounded3": ("C", [L_("inner", True), L_("far", True), L_("notch", True)], ["~", ["|", ["|", L_("inner"), L_("far")], L_("notch")]]),
        "D:two": ("D", [L_("inner"), L_("far")], ["|", L_("inner"), L_("far")]),
        "D:three": ("D", [L_("inner"), L_("far"), L_("notch")], ["|", ["|", L_("inner"), L_("far")], L_("notch")]),
        "D:hollow+islands": ("D", [["C!", [L_("sqB"), L_("notch", True)]], L_("far"), L_("inner")], ["|", ["|", ["-", L_("sqB"), L_("notch")], L_("far")], L_("inner")]),
        "D:island-in-hole": ("D", [["C!", [L_("big"), L_("sqA", True)]], L_("inner")], ["|", ["-", L_("big"), L_("sqA")], L_("inner")]),
        "D:unbounded-member": ("D", [L_("big", True), L_("inner"), L_("notch")], ["~", ["-", ["-", L_("big"), L_("inner")], L_("notch")]]),
        "D:with-empty": ("D", [L_("inner"), ["E"], L_("far"), ["E"]], ["|", L_("inner"), L_("far")]),
        # a hollow island inside the hole of a hollow ring (four nested curves), thin and thick rings
        "D:hollow-island-in-ring": ("D", [["C!", [Nn("N1"), Nn("N2", True)]], ["C!", [Nn("N3"), Nn("N4", True)]]], ["|", ["-", Nn("N1"), Nn("N2")], ["-", Nn("N3"), Nn("N4")]]),
        # a THIN ring (smaller area than the hollow island inside its hole: the island sorts first)
        "D:thin-ring-big-island": ("D", [["C!", [Nn("N2"), n2i(True)]], ["C!", [Nn("N3"), Nn("N4", True)]]], ["|", ["-", Nn("N2"), n2i(False)], ["-", Nn("N3"), Nn("N4")]]),
        "D:island-ring-bigger": ("D", [["C!", [Nn("N2"), Nn("N3", True)]], ["C!", [Nn("N4"), n6(True)]], L_("far")], None),
        # congruent members: equal areas and lengths, so the stored order is the input order
        "D:three-equal": ("D", [sq(-30, 0), sq(0, 0), sq(30, 1)], ["|", ["|", sq(-30, 0), sq(0, 0)], sq(30, 1)]),
        "D:four-equal": ("D", [sq(-30, 0), sq(0, 0), sq(30, 1), sq(0, 40)], ["|", ["|", sq(-30, 0), sq(0, 0)], ["|", sq(30, 1), sq(0, 40)]]),
        "C:three-equal-holes": ("C", [L_("big"), sq(-3, 0, True), sq(6, 8, True), sq(14, -3, True)], ["-", ["-", ["-", L_("big"), sq(-3, 0)], sq(6, 8)], sq(14, -3)]),
        "D:two-equal-rings": ("D", [["C!", [sq(-30, 0, False, 10), sq(-27, 3, True, 4)]], ["C!", [sq(30, 0, False, 10), sq(33, 3, True, 4)]]], None),
        "D:single": ("D", [L_("triA")], L_("triA")),
        "D:single-connected": ("D", [["C!", [L_("big"), L_("inner", True)]]], ["-", L_("big"), L_("inner")]),
        "D:single-connected+empty": ("D", [["E"], ["C!", [L_("inner", True), L_("far", True)]]], None),
        "D:single+empty": ("D", [["E"], L_("triA")], L_("triA")),
        "D:empty-list": ("D", [], ["E"]),
        "D:only-empty": ("D", [["E"], ["E"]], ["E"]),
    }


CURVED = {
    "C:curved-ring": ("C", [["S3", "Q.c16"], ["L", "Q.lens@cw"]], None),
    "D:curved-pair": ("D", [["L", "Q.c8s"], ["L", "Q.c8far"], ["L", "Q.fsq@cw"]][:2], None),
    "D:curved-three": ("D", [["L", "Q.c8far"], ["L", "Q.c8s"], ["M", "Q.c4", -6.0, 0.5]], None),
}


def build_member(e):
    from .. import lib

    if e[0] == "C!":
        return lib.ConnectedShape([build_member(m) for m in e[1]])
    if e[0] == "S3":
        s = al.build_leaf(e[1])
        s.scale(3.0, 3.0)
        return s
    if e[0] == "M":
        s = al.build_leaf(e[1])
        s.move(e[2], e[3])
        return s
    return al.lib_eval(e)


def construct(kind, members):
    from .. import lib

    subs = [build_member(m) for m in members]
    return (lib.ConnectedShape if kind == "C" else lib.DisjointShape)(subs)


def cases(tier, seed):
    specs = []
    for variant in ("int", "float"):
        for name in lists(variant):
            specs.append({"id": "%s#%s" % (name, variant), "list": name, "variant": variant})
    for name in CURVED:
        specs.append({"id": name, "list": name, "variant": "curved"})
    return specs


def member_region(e):
    if e[0] == "C!":
        return rg.Region("and", None, [member_region(m) for m in e[1]])
    if e[0] in ("S3", "M"):
        return rg.interpret(build_member(e))
    return al.model_eval(e)


def run_case(spec):
    from .. import lib

    name, variant = spec["list"], spec["variant"]
    kind, members, opexpr = (CURVED[name] if variant == "curved" else lists(variant)[name])
    viols, hist = [], {}
    sigs = set()
    nontrivial = []
    perms = list(permutations(range(len(members))))
    if "perm" in spec:
        # replay: the first permutation (reference for the order-independence oracle) and the failing one
        perms = [perms[0]] + ([tuple(spec["perm"])] if tuple(spec["perm"]) != perms[0] else [])
    # reference region
    regs = [member_region(m) for m in members]
    regs = [r for r in regs if not (r.kind == "empty")] if kind == "D" else regs
    if kind == "C":
        ref = rg.Region("and", None, regs)
    else:
        ref = rg.Region("or", None, regs) if regs else rg.EMPTY
    curves = ref.curves()
    polygonal = all(c.is_poly for c in curves)
    exact = polygonal and variant == "int"
    size = max([c.size() for c in curves] + [F(1)])
    if curves and polygonal:
        wits = rg.witnesses_for(curves)
        if not exact:
            wits = [w for w in wits if not ref.near_boundary(w, size / 10**4)]
    elif curves:
        bx = (min(c.box()[0] for c in curves), min(c.box()[1] for c in curves), max(c.box()[2] for c in curves), max(c.box()[3] for c in curves))
        wits = []
        for i in range(13):
            for j in range(13):
                p = (bx[0] + (bx[2] - bx[0]) * F(2 * i - 1, 22) + size / 977, bx[1] + (bx[3] - bx[1]) * F(2 * j - 1, 22) + size / 1013)
                if not ref.near_boundary(p, size / 100):
                    wits.append(p)
    else:
        wits = [(F(0), F(0)), (F(3), F(4))]
    expect = [ref.contains(w) for w in wits]
    base = None
    opshape = None
    if opexpr is not None:
        st, opshape = call_limited(lambda: al.lib_eval(opexpr), 120)
        if st != "ok":
            opshape = None
    for perm in perms:
        pid = "%s#%s perm=%s" % (name, variant, "".join(str(i) for i in perm))
        rep = {"id": "replay:" + pid, "list": name, "variant": variant, "perm": list(perm)}

        def fail(tag, msg):
            hist["fail:" + tag] = hist.get("fail:" + tag, 0) + 1
            viols.append({"case_id": pid + " :: " + tag, "what": msg, "replay": rep})

        st, X = call_limited(lambda: construct(kind, [members[i] for i in perm]), 60)
        if st != "ok":
            fail("noresult", "constructor %s" % ("hangs" if st == "timeout" else "raises " + exc_str(X)))
            continue
        nontrivial.append(pid)
        sigs.add(hash(rg.rep_sig(X, with_cache=False)))
        k = rg.kind_of(X)
        hist["kind:" + k] = hist.get("kind:" + k, 0) + 1
        frame = c08.make_frame(X)
        obs = {"kind": k, "region": c08.region_fingerprint(X, frame) if polygonal else None}
        # canonical order
        if k in ("ConnectedShape", "DisjointShape"):
            areas = [float(s) for s in X.subshapes]
            if any(areas[i] < areas[i + 1] - 1e-9 * max(1.0, abs(areas[i])) for i in range(len(areas) - 1)):
                fail("order", "subshapes are not sorted by decreasing area: %s" % areas)
        # membership against the reference
        if k not in ("EmptyShape", "WholeShape") or True:
            for w, exp in zip(wits, expect):
                if exp == rg.ON:
                    continue
                q = w if exact else (float(w[0]), float(w[1]))
                st, got = call_limited(lambda: q in X, 30)
                if st != "ok" or bool(got) != (exp == rg.IN):
                    fail("membership", "%s in shape is %r, the point is %s the %s of the members" % (oc.fmt_pt(w), got if st == "ok" else st, exp, "intersection" if kind == "C" else "union"))
                    break
        # moments
        if k not in ("EmptyShape", "WholeShape"):
            for a, b in oc.MOMENTS:
                m = oc.lib_moment(X, a, b)
                want = ref.boundary_moment(a, b)
                if exact:
                    ok = rg.ex(m) == want
                elif polygonal:
                    ok = abs(rg.ex(m) - want) <= F(1, 10**9) * max(abs(want), size ** (a + b + 2) * F(1, 1000))
                else:
                    ok = abs(rg.ex(m) - want) <= F(1, 10**6) * size ** (a + b + 2)
                if not ok:
                    fail("moment", "moment(%d,%d) = %r, reference %s" % (a, b, m, float(want)))
                    break
        # copy()/deepcopy(): same kind, same structure, same region, == the original
        from copy import copy as _copy, deepcopy as _deepcopy

        for cname, cfn in (("copy", _copy), ("deepcopy", _deepcopy)):
            st, Y = call_limited(lambda: cfn(X), 60)
            if st != "ok":
                fail(cname, "%s(X) %s" % (cname, st))
                continue
            if rg.kind_of(Y) != k or rg.geom_sig(Y) != rg.geom_sig(X):
                fail(cname, "%s(X) has another structure: %s with %d curves (X: %s with %d curves)" % (cname, rg.kind_of(Y), len(rg.all_jordans(Y)), k, len(rg.all_jordans(X))))
            elif k not in ("EmptyShape", "WholeShape"):
                st, eq = call_limited(lambda: Y == X, 120)
                if st != "ok" or eq is not True:
                    fail(cname, "%s(X) == X gives %r" % (cname, eq if st == "ok" else st))
        # complement
        st, N = call_limited(lambda: ~X, 60)
        if st != "ok":
            fail("complement", "~X %s" % st)
            obs["complement"] = None
        else:
            obs["complement"] = (rg.kind_of(N), c08.region_fingerprint(N, frame) if polygonal else None)
            for w, exp in zip(wits[:40], expect[:40]):
                if exp == rg.ON:
                    continue
                q = w if exact else (float(w[0]), float(w[1]))
                if bool(q in N) != (exp == rg.OUT):
                    fail("complement", "%s in ~X is wrong" % oc.fmt_pt(w))
                    break
        if base is None:
            base = (perm, X, obs)
        else:
            if obs != base[2]:
                diff = [key for key in obs if obs[key] != base[2][key]]
                fail("order-dependence", "differs from permutation %s in %s" % ("".join(map(str, base[0])), diff))
            if k not in ("EmptyShape", "WholeShape"):
                st, eq = call_limited(lambda: X == base[1], 120)
                if st != "ok" or eq is not True:
                    fail("eq", "X == X(first permutation) gives %r" % (eq if st == "ok" else st,))
            elif X is not base[1]:
                fail("eq", "singleton expected")
        # operator-built shape
        if opshape is not None:
            ko = rg.kind_of(opshape)
            if ko != k:
                fail("vs-operators", "kind %s, the operators build a %s" % (k, ko))
            elif k in ("EmptyShape", "WholeShape"):
                if X is not opshape:
                    fail("vs-operators", "not the singleton")
            else:
                if c08.region_fingerprint(opshape, frame) != c08.region_fingerprint(X, frame):
                    fail("vs-operators", "region differs from the operator-built shape")
                st, eq = call_limited(lambda: X == opshape, 120)
                if st != "ok" or eq is not True:
                    fail("vs-operators-eq", "X == operator-built shape gives %r" % (eq if st == "ok" else st,))
        # single member: an unshared copy
        real = [m for m in members if m != ["E"]]
        if kind == "D" and len(real) == 1:
            S = build_member(real[0])
            Y = lib.DisjointShape([S])
            if rg.kind_of(Y) != rg.kind_of(S) or rg.rep_sig(Y, False) != rg.rep_sig(S, False):
                fail("single", "DisjointShape([S]) is not a copy of S")
            if set(explore.reachable_ids(Y)) & set(explore.reachable_ids(S)):
                fail("single", "DisjointShape([S]) shares mutable state with S")
    seen, out = set(), []
    for v in viols:
        if v["case_id"] not in seen:
            seen.add(v["case_id"])
            out.append(v)
    return {"violations": out, "evals": len(perms), "nontrivial": nontrivial, "states": len(sigs), "transitions": len(perms), "hist": hist, "sample": {"list": name, "variant": variant, "permutations": len(perms), "witnesses": len(wits)}}


def finalize(results, cov):
    h = cov["outcome_histogram"]
    need = ["kind:ConnectedShape", "kind:DisjointShape", "kind:EmptyShape", "kind:SimpleShape"]
    return ["vacuity: %s never built" % k for k in need if not h.get(k)]
