"""C06 Results are canonical, well-formed shapes; empty/whole are the singletons.

Program explorer (same expression families as C01) with a structural validator applied to
every returned shape, the kind tables of docs/source/rst/shape.rst, and the singleton
laws for every alphabet shape."""
from fractions import Fraction as F

from .. import alphabets as al
from .. import opcheck as oc
from .. import progs
from .. import refgeo as rg
from ..runner import exc_str
from . import c01

ID = "C06"
LEVEL = "model_checking"
RULE = (
    "the operator expressions of C01 (depth 1-3 over the P/PC/TT/numeric alphabets, exact general position) plus, "
    "for every alphabet shape S of every kind, the law family S|~S, S&~S, S-S, S^S, S^~S, S|S, S&S, ~~S and the "
    "Empty/Whole tables (the laws also on 9 CURVED shapes: quadratic, genuine cubic, single-segment, mixed degrees, curved composites - expected singleton / == operand given by the law itself), also for compound shapes that were used and then moved in place; each executed on the real code and the returned object validated structurally "
    "(closed chains, no zero-length piece, no self-crossing, one outer boundary, holes inside and pairwise "
    "outside, components disjoint, sorted subshapes, kind tables, singletons by identity when the exact "
    "reference region is empty/whole on every arrangement face). non-trivial = result is not an operand copy; "
    "state = distinct result representation; transition = operator application."
)
ASSUMPTIONS = [
    "reference emptiness/wholeness decided on all faces of the arrangement of the leaves' supporting lines",
    "laws with equal/complementary operands are judged although they are not transversal: the property states them for every S",
]
CASE_TIMEOUT = 900


def cases(tier, seed):
    specs = [dict(s) for s in c01.cases(tier, seed) if not s["id"].startswith("f:deg")]
    # singleton laws for every alphabet shape of every kind and numeric variant
    shapes = progs.p_shapes() + progs.pc_shapes()
    if tier == "thorough":
        shapes += progs.p_shapes("frac", progs.QUICK_P) + progs.p_shapes("float", progs.QUICK_P) + progs.pc_shapes("frac") + progs.pc_shapes("float")
    else:
        shapes += [progs.L("P.sqA#frac"), progs.L("P.triA#float@cw"), ["PC", "hollow", "float"], ["PC", "two", "frac"]]
    have = {s["id"] for s in specs}
    for s in shapes:
        for fam, fn in (("laws", progs.law_exprs), ("rows", progs.singleton_rows)):
            cid = "f:%s:%s" % (fam, al.expr_id(s))
            if cid not in have:
                specs.append({"id": cid, "exprs": fn(s), "deg": True})
    # the same laws for compound shapes that have been used and then moved in place
    for base in (["PC", "two", "int"], ["PC", "hollow", "int"], ["PC", "xtwo", "int"], ["PC", "holeisland", "int"], ["L", "P.triA#int"], ["PC", "xhollow", "frac"]):
        mv = ["MV", base, 60, 45]
        specs.append({"id": "f:laws:" + al.expr_id(mv), "exprs": progs.law_exprs(mv), "deg": True})
    # the singleton laws on CURVED shapes (degree 2 and genuine degree 3, single-segment, composite):
    # the expected result is given by the law itself, no reference region is needed
    for q in (["L", "Q.c8"], ["L", "Q.lens"], ["L", "Q.blob"], ["L", "Q.scub"], ["L", "Q.tear"], ["L", "Q.blob@cw"], ["L", "Q.mixg"], ["CQ", "ringc"], ["CQ", "twoc"]):
        specs.append({"id": "f:curvedlaws:" + al.expr_id(q), "curved_laws": q})
    return specs


E, W, S, C, D = "EmptyShape", "WholeShape", "SimpleShape", "ConnectedShape", "DisjointShape"


def table_kinds(op, ka, kb):
    """Result kinds the documentation tables allow (None = any)."""
    if op in ("~", "neg"):
        return {E: {W}, W: {E}, S: {S}, C: {D}, D: {C, D}}[ka]
    if op in ("|", "+"):
        if ka == W or kb == W:
            return {W}
        if ka == E:
            return {kb}
        if kb == E:
            return {ka}
        return {W, S, C, D}
    if op in ("&", "*"):
        if ka == E or kb == E:
            return {E}
        if ka == W:
            return {kb}
        if kb == W:
            return {ka}
        return {E, S, C, D}
    if op == "-":
        if ka == E or kb == W:
            return {E}
        if kb == E:
            return {ka}
        if ka == W:
            return {S: {S}, C: {D}, D: {C, D}}[kb]
        return {E, S, C, D}
    if op == "^":
        if ka == E:
            return {kb}
        if kb == E:
            return {ka}
        if ka == W:
            return table_kinds("~", kb, None)
        if kb == W:
            return table_kinds("~", ka, None)
        return {E, W, S, C, D}
    return None


def judge(e, deg, hist, sigs):
    leaves, sets, curves, poly = oc.leaves_info(e)
    if not poly:
        return None
    gp = rg.regions_general_position(sets) if len(sets) > 1 else True
    if not gp and not deg:
        return "excluded"
    trace = []
    from ..runner import call_limited

    st, R = call_limited(lambda: al.lib_eval(e, trace), oc.OP_LIMIT)
    if st != "ok":
        hist["no-result"] = hist.get("no-result", 0) + 1
        # the laws are stated for every S: not returning is a violation there; for other
        # non-transversal operands C01 owns "always returns"
        if gp or deg:
            return [("noresult", "hangs" if st == "timeout" else "raises " + exc_str(R))]
        return []
    kind = rg.kind_of(R)
    hist["result:" + kind] = hist.get("result:" + kind, 0) + 1
    sigs.add(hash(rg.rep_sig(R, with_cache=False)))
    fails = []
    size = max([c.size() for c in curves] + [F(1)]) if curves else F(1)
    for m in oc.wellformed(R, size):
        fails.append(("malformed", m))
    # kind tables on the outermost transition
    op = e[0]
    if op in ("~", "neg"):
        sub = al.lib_eval(e[1])
        allowed = table_kinds(op, rg.kind_of(sub), None)
    elif op in al.BINOPS and trace:
        _, a, b, _ = trace[-1]
        allowed = table_kinds(op, rg.kind_of(a), rg.kind_of(b))
    else:
        allowed = None
    if allowed is not None and kind not in allowed:
        fails.append(("kind", "result kind %s not in the documented table %s" % (kind, sorted(allowed))))
    # singletons: reference region empty / whole on every face
    model = al.model_eval(e)
    if curves:
        wits = rg.witnesses_for(curves)
        exact = oc.expr_is_rational(e)
        if not exact:
            wits = [w for w in wits if not any(c.near(w, size / 10**4) for c in curves)]
        vals = {model.contains(w) for w in wits}
        vals.discard(rg.ON)
    else:
        vals = {model.contains((F(0), F(0)))}
    if vals == {rg.OUT}:
        hist["model-empty"] = hist.get("model-empty", 0) + 1
        if kind != E:
            fails.append(("singleton", "the region is empty but a %s was returned" % kind))
    elif vals == {rg.IN}:
        hist["model-whole"] = hist.get("model-whole", 0) + 1
        if kind != W:
            fails.append(("singleton", "the region is the whole plane but a %s was returned" % kind))
    else:
        if kind in (E, W):
            fails.append(("singleton", "the region is neither empty nor whole but %s was returned" % kind))
    return fails


def curved_laws(q):
    """(expression, expected) with expected in E / W / 'same' (== the operand, same kind)."""
    n = ["~", q]
    return [
        (["|", q, n], W), (["|", n, q], W), (["&", q, n], E), (["&", n, q], E), (["-", q, q], E), (["^", q, q], E), (["^", q, n], W),
        (["|", q, q], "same"), (["&", q, q], "same"), (["~", n], "same"), (["-", q, ["E"]], "same"), (["&", q, ["W"]], "same"),
    ]


def run_curved_laws(spec):
    from ..runner import call_limited

    q = spec["curved_laws"]
    viols, nontrivial, hist = [], [], {}
    sigs = set()
    for e, want in curved_laws(q):
        eid = al.expr_id(e)
        nontrivial.append(eid)
        rep = {"id": "replay:" + eid, "curved_laws": q}
        st, R = call_limited(lambda: al.lib_eval(e), oc.OP_LIMIT)
        if st != "ok":
            viols.append({"case_id": eid + " :: noresult", "what": "hangs" if st == "timeout" else "raises " + exc_str(R), "replay": rep})
            continue
        kind = rg.kind_of(R)
        hist["result:" + kind] = hist.get("result:" + kind, 0) + 1
        sigs.add(hash(rg.rep_sig(R, with_cache=False)))
        if want in (E, W):
            if kind != want:
                viols.append({"case_id": eid + " :: singleton", "what": "the law gives %s but a %s was returned (area %r)" % (want, kind, float(R) if kind not in (E, W) else None), "replay": rep})
            continue
        S0 = al.lib_eval(q)
        if kind != rg.kind_of(S0):
            viols.append({"case_id": eid + " :: kind", "what": "a %s, the operand is a %s" % (kind, rg.kind_of(S0)), "replay": rep})
            continue
        st, eq = call_limited(lambda: R == S0, oc.OP_LIMIT)
        if st != "ok" or eq is not True:
            viols.append({"case_id": eid + " :: same", "what": "result == operand gives %r" % (eq if st == "ok" else st,), "replay": rep})
        size = max(c.size() for c in rg.interpret(S0).curves())
        for m in oc.wellformed(R, size):
            viols.append({"case_id": eid + " :: malformed", "what": m, "replay": rep})
            break
    return {"violations": viols, "evals": len(nontrivial), "nontrivial": nontrivial, "states": len(sigs), "sig_hashes": sorted(sigs), "transitions": len(nontrivial), "hist": hist, "excluded": 0, "sample": {"expr": al.expr_id(q), "n_exprs": 12}}


def run_case(spec):
    if "curved_laws" in spec:
        return run_curved_laws(spec)
    deg = spec.get("deg", False)
    hist, sigs = {}, set()
    viols, nontrivial = [], []
    evals = excluded = 0
    for e in spec["exprs"]:
        res = judge(e, deg, hist, sigs)
        if res is None:
            continue
        if res == "excluded":
            excluded += 1
            continue
        evals += 1
        eid = al.expr_id(e)
        nontrivial.append(eid)
        seen = set()
        for tag, msg in res:
            if tag in seen:
                continue
            seen.add(tag)
            viols.append({"case_id": "%s :: %s" % (eid, tag), "what": msg, "replay": {"id": "replay:" + eid, "exprs": [e], "deg": deg}})
    return {
        "violations": viols,
        "evals": evals,
        "nontrivial": nontrivial,
        "states": len(sigs),
        "sig_hashes": sorted(sigs),
        "transitions": evals,
        "hist": hist,
        "excluded": excluded,
        "sample": {"expr": al.expr_id(spec["exprs"][0]), "n_exprs": len(spec["exprs"])},
    }


def finalize(results, cov):
    allsigs = set()
    for r in results:
        allsigs.update(r.get("sig_hashes", []))
    cov["states"] = len(allsigs)
    h = cov["outcome_histogram"]
    errs = []
    for k in ("result:EmptyShape", "result:WholeShape", "result:ConnectedShape", "result:DisjointShape", "model-empty", "model-whole"):
        if not h.get(k):
            errs.append("vacuity: bucket %s never observed" % k)
    return errs
