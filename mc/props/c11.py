"""C11 A call that raises or is interrupted leaves its operands intact.

Crash-point enumeration on the real code (mc/crash.py): an interrupt is delivered at every
internal call boundary (call/return/c_call/c_return event inside the library) of each
operation - exhaustively for the containment / comparison / query family, one
representative pair per state epoch for the long operator runs - and after each one the
operands are compared with a pristine copy.  Plus every invalid-argument case of the
in-place transformations and invalid-operand calls that raise naturally."""
from copy import copy, deepcopy
from decimal import Decimal
from fractions import Fraction as F

from .. import alphabets as al
from .. import crash
from .. import opcheck as oc
from .. import refgeo as rg
from ..runner import call_limited, exc_str
from . import c08

ID = "C11"
LEVEL = "fault_enumeration"
RULE = (
    "operations {H in S (Connected in Simple, temporarily inverting path), S|H, S&H, D in S, C in D, A==B, float(A), copy(A), "
    "p in A, integrals, J in A, tri&tri, tri|tri, tri^tri, sqA|triA, sqA-triA, hollow|dia, curved c8|fsq} x every library "
    "call/return/c_call/c_return event k (full mode) or the first and last event of every epoch of equal operand state "
    "(reduced mode, for the long operator runs; cross-validated against full mode on tri&tri in the thorough tier): "
    "InjectedInterrupt(BaseException) raised at event k on fresh operands, then every operand must denote its original region "
    "with its original orientation and answer area/box/orientation/membership like a pristine copy. Also: invalid operands "
    "(A|3, A&None, A=='x', J==3, 5 in A ...) and every one of 9 bad values (text, numeric text, bytes, None, Decimal, list, triple, complex, object) in every argument position of move/scale/rotate (122 calls) on shapes and curves of every kind, numeric type and of MIXED numeric types across curves (Simple/Connected/Disjoint) "
    "shapes must leave the full representation identical. non-trivial = injection point inside the operation (fired); "
    "distinct = (operation, event index)."
)
ASSUMPTIONS = [
    "crash points are call boundaries (and line events for H in S in the thorough tier); a fault between two byte codes of a line or a second fault during unwinding is outside the enumeration",
    "reduced mode relies on: unwinding runs no library code outside try bodies with finally/catch-all handlers, whose frames contribute their line to the epoch key (computed from the sources at run time)",
]
CASE_TIMEOUT = 3000


# --------------------------------------------------------------------------- operations
def mk(*exprs):
    return lambda: [al.lib_eval(e) for e in exprs]


HOL = ["PC", "ringB", "int"]  # sqB minus notch
BIG = ["L", "P.big#int"]
TWO = ["PC", "two", "int"]
TA = ["L", "TA.40#int"]
TB = ["L", "TB.33#int"]

OPS = {
    # name: (operand exprs, function of operand list, mode quick, mode thorough)
    "H in S": ((HOL, BIG), lambda o: o[0] in o[1], "full", "full"),
    "S in H": ((HOL, ["L", "P.inner#int"]), lambda o: o[1] in o[0], "full", "full"),
    "S | H": ((BIG, HOL), lambda o: o[0] | o[1], "reduced", "full"),
    "S & H": ((BIG, HOL), lambda o: o[0] & o[1], "reduced", "full"),
    "D in S": ((TWO, BIG), lambda o: o[0] in o[1], "full", "full"),
    "H in D": ((HOL, ["PC", "ringfar", "int"]), lambda o: o[0] in o[1], "reduced", "full"),
    "A == B": ((["L", "P.sqA#int"], ["L", "P.sqA#fint"]), lambda o: o[0] == o[1], "full", "full"),
    "H == H": ((HOL, HOL), lambda o: o[0] == o[1], "reduced", "full"),
    "float(A)": ((["L", "P.triA#int"],), lambda o: float(o[0]), "full", "full"),
    "copy(H)": ((HOL,), lambda o: copy(o[0]), "full", "full"),
    "p in H": ((HOL,), lambda o: (7, 8) in o[0], "full", "full"),
    "moment(H)": ((HOL,), lambda o: oc.lib_moment(o[0], 1, 1), "full", "full"),
    "J in A": ((["L", "P.sqA#int"], ["L", "P.triA#int"]), lambda o: o[1].jordans[0] in o[0], "full", "full"),
    "~H": ((HOL,), lambda o: ~o[0], "full", "full"),
    "tri & tri": ((TA, TB), lambda o: o[0] & o[1], "reduced", "full"),
    "tri | tri": ((TA, TB), lambda o: o[0] | o[1], "reduced", "reduced"),
    "tri ^ tri": ((TA, TB), lambda o: o[0] ^ o[1], "reduced", "reduced"),
    "sqA | triA": ((["L", "P.sqA#int"], ["L", "P.triA#int"]), lambda o: o[0] | o[1], None, "reduced"),
    "sqA - triA": ((["L", "P.sqA#int"], ["L", "P.triA#int"]), lambda o: o[0] - o[1], None, "reduced"),
    "hollow | dia": ((["PC", "hollow", "int"], ["L", "P.dia#int"]), lambda o: o[0] | o[1], None, "reduced"),
    "c8 | fsq": ((["L", "Q.c8"], ["L", "Q.fsq"]), lambda o: o[0] | o[1], None, "reduced"),
    "c8 in c16": ((["L", "Q.c8s"], ["L", "Q.c16"]), lambda o: o[0] in o[1], "reduced", "full"),
}


# kind matrix for the containment / union / intersection short-cut paths: every ordered pair of
# {bounded simple, unbounded simple, hollow, unbounded connected, two components, unbounded disjoint}
# in nested position (reduced mode: one injection pair per operand-state epoch)
KINDS = {
    "S+": ["L", "N.N2#int"],
    "s+": ["L", "N.N4#int"],
    "S-": ["L", "N.N4#int@cw"],
    "s-": ["L", "N.N2#int@cw"],
    "C+": ["-", ["L", "N.N2#int"], ["L", "N.N5#int"]],
    "c+": ["-", ["L", "N.N3#int"], ["L", "N.N4#int"]],
    "C-": ["PC", "xnear", "int"],
    "D+": ["PC", "twonear", "int"],
    "D-": ["~", ["-", ["L", "N.N3#int"], ["L", "N.N4#int"]]],
}
MATRIX = []
for _a in KINDS:
    for _b in KINDS:
        if _a != _b:
            MATRIX.append((_a, _b))
for _a, _b in MATRIX:
    OPS["%s in %s" % (_a, _b)] = ((KINDS[_a], KINDS[_b]), lambda o: o[0] in o[1], "reduced", "reduced")
for _a, _b in MATRIX[::3]:
    OPS["%s | %s" % (_a, _b)] = ((KINDS[_a], KINDS[_b]), lambda o: o[0] | o[1], None, "reduced")
    OPS["%s & %s" % (_a, _b)] = ((KINDS[_a], KINDS[_b]), lambda o: o[0] & o[1], None, "reduced")


def fingerprint(operands):
    """Fast structural fingerprint of the operands (identity-free): every coordinate,
    the segmentation and the cached signed lengths."""
    out = []
    for X in operands:
        for j in rg.all_jordans(X):
            segs = j._JordanCurve__segments
            out.append(len(segs))
            out.append(j._JordanCurve__lenght)
            for s in segs:
                for p in s.ctrlpoints:
                    out.append(p._x)
                    out.append(p._y)
    return hash(tuple(out))


def observe(X):
    """Region and answers of one operand (compared with a pristine copy)."""
    k = rg.kind_of(X)
    if k in ("EmptyShape", "WholeShape"):
        return (k,)
    frame = c08.make_frame(X)
    reg = c08.region_fingerprint(X, frame)
    orient = tuple(rg.jordan_curve(j).area() > 0 for j in X.jordans)
    return (k, reg, orient)


def battery(X, grid):
    k = rg.kind_of(X)
    if k in ("EmptyShape", "WholeShape"):
        return (k,)
    out = [round(float(X), 9)]
    out.append(tuple((float(j) > 0) for j in X.jordans))
    b = X.box()
    out.append(tuple(round(float(v), 9) for v in (b.lowpt[0], b.lowpt[1], b.toppt[0], b.toppt[1])))
    out.append(tuple(bool(p in X) for p in grid))
    return tuple(out)


def grid_for(X):
    if rg.kind_of(X) in ("EmptyShape", "WholeShape"):
        return []
    bx, size = c08.make_frame(X)
    pts = []
    for i in range(4):
        for j in range(4):
            pts.append((float(bx[0] + (bx[2] - bx[0]) * F(2 * i + 1, 8) + size / 977), float(bx[1] + (bx[3] - bx[1]) * F(2 * j + 1, 8) + size / 1013)))
    return pts


def same(a, b):
    if isinstance(a, tuple) and isinstance(b, tuple) and len(a) == 4 and len(b) == 4 and a[1] == "curved":
        return c08.same_region(a, b)
    if isinstance(a, tuple) and isinstance(b, tuple) and len(a) == len(b):
        return all(same(x, y) for x, y in zip(a, b))
    return a == b


def judge_operands(name, operands, pristine_obs, pristine_bat, grids, k, with_battery):
    fails = []
    for i, X in enumerate(operands):
        st, obs = call_limited(lambda: observe(X), 60)
        if st != "ok" or not same(obs, pristine_obs[i]):
            what = "operand %d no longer denotes its region" % i
            if st == "ok" and obs[0] == pristine_obs[i][0] and len(obs) > 2 and obs[2] != pristine_obs[i][2]:
                what = "operand %d is left with reversed orientation (inside-out)" % i
            fails.append(("operand%d" % i, what))
            continue
        if with_battery:
            st, bat = call_limited(lambda: battery(X, grids[i]), 60)
            if st != "ok" or bat != pristine_bat[i]:
                fails.append(("answers%d" % i, "operand %d answers %s, a pristine copy %s" % (i, str(bat)[:120], str(pristine_bat[i])[:120])))
    return fails


def cases(tier, seed):
    """full mode = every call/return event of the operation (sharded over workers: shard i
    takes the events k = i mod n); reduced mode = first and last event of every epoch."""
    specs = []
    nsh = 4 if tier == "quick" else 16
    for name, (ex, fn, mq, mt) in OPS.items():
        mode = mq if tier == "quick" else mt
        if mode is None:
            continue
        if mode == "full":
            for i in range(nsh):
                specs.append({"id": "crash:%s:%d/%d" % (name, i, nsh), "op": name, "mode": "full", "shard": i, "nshards": nsh, "cost": 30})
        else:
            specs.append({"id": "crash:" + name, "op": name, "mode": mode, "cost": 40})
    if tier == "thorough":
        for i in range(nsh):
            specs.append({"id": "crash-lines:H in S:%d" % i, "op": "H in S", "mode": "lines", "shard": i, "nshards": nsh, "cost": 60})
        for i in range(nsh):
            specs.append({"id": "crash-assert:H in S:%d" % i, "op": "H in S", "mode": "full", "exc": "AssertionError", "shard": i, "nshards": nsh, "cost": 30})
            # every event kind incl. calls into C builtins
            specs.append({"id": "crash-c:H in S:%d" % i, "op": "H in S", "mode": "full", "events": "all", "shard": i, "nshards": nsh, "cost": 60})
        # cross-validation of the epoch reduction: reduced vs full verdicts on the same operation
        specs.append({"id": "crash-xval:tri & tri", "op": "tri & tri", "mode": "xval", "cost": 100})
        specs.append({"id": "crash-xval:S | H", "op": "S | H", "mode": "xval", "cost": 100})
    specs.append({"id": "invalid-operands", "invalid_operands": True})
    for k in range(len(TARGETS)):
        specs.append({"id": "invalid-transform-args:%d" % k, "invalid_args": True, "target": k, "cost": 20})
    return specs


# --------------------------------------------------------------------------- invalid calls
def invalid_operand_calls():
    def J(o):
        return o[0].jordans[0]

    return [
        ("A | 3", lambda o: o[0] | 3),
        ("A & None", lambda o: o[0] & None),
        ("A - 'x'", lambda o: o[0] - "x"),
        ("A ^ 2.5", lambda o: o[0] ^ 2.5),
        ("A == 'x'", lambda o: o[0] == "x"),
        ("J == 3", lambda o: J(o) == 3),
        ("'ab' in A", lambda o: "ab" in o[0]),
        ("(1,2,3) in A", lambda o: (1, 2, 3) in o[0]),
        ("None in A", lambda o: None in o[0]),
        ("A.contains_point((1,1), 'yes')", lambda o: o[0].contains_point((1, 1), "yes")),
        ("A.contains_jordan(3)", lambda o: o[0].contains_jordan(3)),
        ("A.contains_shape(J)", lambda o: o[0].contains_shape(J(o))),
        ("J & 3", lambda o: J(o) & 3),
        ("J.split([0],[2])", lambda o: J(o).split([0], [2])),
        ("J.split([99],[0.5])", lambda o: J(o).split([99], [0.5])),
        ("J.split([0,1],[0.5])", lambda o: J(o).split([0, 1], [0.5])),
        ("J.split([0],['a'])", lambda o: J(o).split([0], ["a"])),
        ("moment(A,-1,0)", lambda o: oc.lib_moment(o[0], -1, 0)),
        ("moment(A,1.5,0)", lambda o: oc.lib_moment(o[0], 1.5, 0)),
    ]


BAD_VALUES = [
    ("'a'", "a"),
    ("'3'", "3"),
    ("None", None),
    ("Decimal(3)", Decimal(3)),
    ("[3]", [3]),
    ("(1,2,3)", (1, 2, 3)),
    ("1+2j", complex(1, 2)),
    ("object", object()),
    ("b'2'", b"2"),
]


def _invalid_args():
    """Every bad value in every argument position of move / scale / rotate (the other position
    holds a valid number), plus the arity errors."""
    out = [("move(1)", lambda s: s.move(1)), ("move((1,2,3))", lambda s: s.move((1, 2, 3))), ("move()", lambda s: s.move()), ("scale(2)", lambda s: s.scale(2)), ("rotate()", lambda s: s.rotate())]
    for nm, v in BAD_VALUES:
        out += [
            ("move(%s)" % nm, lambda s, v=v: s.move(v)),
            ("move(1, %s)" % nm, lambda s, v=v: s.move(1, v)),
            ("move(%s, 1)" % nm, lambda s, v=v: s.move(v, 1)),
            ("move((1, %s))" % nm, lambda s, v=v: s.move((1, v))),
            ("move((%s, 1))" % nm, lambda s, v=v: s.move((v, 1))),
            ("move((1/2, %s))" % nm, lambda s, v=v: s.move((F(1, 2), v))),
            ("move((0.5, %s))" % nm, lambda s, v=v: s.move((0.5, v))),
            ("scale(%s, 1)" % nm, lambda s, v=v: s.scale(v, 1)),
            ("scale(2, %s)" % nm, lambda s, v=v: s.scale(2, v)),
            ("scale(%s, %s)" % (nm, nm), lambda s, v=v: s.scale(v, v)),
            ("scale(xscale=2, yscale=%s)" % nm, lambda s, v=v: s.scale(xscale=2, yscale=v)),
            ("rotate(%s)" % nm, lambda s, v=v: s.rotate(v)),
            ("rotate(%s, degrees=True)" % nm, lambda s, v=v: s.rotate(v, degrees=True)),
        ]
    return out


INVALID_ARGS = _invalid_args()
# targets: every kind, every numeric type, and compound shapes whose curves have DIFFERENT
# numeric types (a rational polygon with a float curved hole / a far float component)
TARGETS = [
    ["L", "P.triA#int"],
    ["L", "P.triA#float"],
    ["PC", "hollow", "int"],
    ["PC", "two", "frac"],
    ["L", "Q.c8"],
    ["PC", "xtwo", "float"],
    ["-", ["L", "P.big#int"], ["L", "Q.c8s"]],
    ["|", ["L", "Q.c8far"], ["L", "P.sqA#frac"]],
    ["|", ["L", "P.sqA#frac"], ["L", "Q.c8far"]],
]


def run_case(spec):
    from .. import lib

    viols, hist, nontrivial = [], {}, []
    evals = 0
    if spec.get("invalid_args"):
        for te in (TARGETS if spec.get("target") is None else [TARGETS[spec["target"]]]):
            proto = al.lib_eval(te)
            for nm, fn in INVALID_ARGS:
                for target_kind in ("shape", "curve"):
                    S = deepcopy(proto)
                    T = S if target_kind == "shape" else S.jordans[0]
                    before = rg.rep_sig(S)
                    st, val = call_limited(lambda: fn(T), 30)
                    evals += 1
                    cid = "%s.%s on %s(%s)" % (target_kind, nm, al.expr_id(te), target_kind)
                    if st == "ok":
                        hist["accepted"] = hist.get("accepted", 0) + 1
                        continue  # accepted arguments are C09's business
                    hist["rejected:" + type(val).__name__ if st == "raise" else "hang"] = hist.get("rejected:" + type(val).__name__ if st == "raise" else "hang", 0) + 1
                    nontrivial.append(cid)
                    if rg.rep_sig(S) != before:
                        viols.append({"case_id": cid + " :: changed", "what": "the call raised %s but the shape was modified" % (exc_str(val) if st == "raise" else st), "replay": {"id": "replay:invalid-args", "invalid_args": True, "target": spec.get("target")}})
        return {"violations": viols, "evals": evals, "nontrivial": nontrivial, "hist": hist, "sample": {"calls": [n for n, _ in INVALID_ARGS][:5], "targets": [al.expr_id(t) for t in TARGETS]}}
    if spec.get("invalid_operands"):
        for ae in (["L", "P.sqA#int"], ["PC", "hollow", "int"], ["PC", "two", "float"], ["L", "Q.c8"]):
            for nm, fn in invalid_operand_calls():
                o = [al.lib_eval(ae)]
                before = rg.rep_sig(o[0])
                st, val = call_limited(lambda: fn(o), 30)
                evals += 1
                cid = "%s with A=%s" % (nm, al.expr_id(ae))
                hist[("raised:" + type(val).__name__) if st == "raise" else st] = hist.get(("raised:" + type(val).__name__) if st == "raise" else st, 0) + 1
                if st == "raise":
                    nontrivial.append(cid)
                    if rg.rep_sig(o[0]) != before:
                        viols.append({"case_id": cid + " :: changed", "what": "raised %s and left the operand modified" % exc_str(val), "replay": {"id": "replay:invalid-operands", "invalid_operands": True}})
        return {"violations": viols, "evals": evals, "nontrivial": nontrivial, "hist": hist, "sample": {"calls": [n for n, _ in invalid_operand_calls()][:6]}}

    name = spec["op"]
    exprs, fn, _, _ = OPS[name]
    make = mk(*exprs)
    mode = spec["mode"]
    exc = AssertionError if spec.get("exc") == "AssertionError" else crash.InjectedInterrupt
    kinds = ("call", "return", "c_call", "c_return") if spec.get("events") == "all" else ("call", "return")
    en = crash.Enumerator(lib.PKG_DIR, fingerprint, events=kinds)
    pristine = make()
    grids = [grid_for(X) for X in pristine]
    pristine_obs = [observe(X) for X in pristine]
    pristine_bat = [battery(X, g) for X, g in zip(pristine, grids)]
    tagx = "" if exc is crash.InjectedInterrupt else "(AssertionError)"

    if mode == "lines":
        n = crash.line_events(lib.PKG_DIR, make, fn)
        hist["line-events"] = n
        bad = {}
        for k in range(1, n + 1):
            if k % spec.get("nshards", 1) != spec.get("shard", 0):
                continue
            operands, status, _ = crash.inject_at_line(lib.PKG_DIR, make, fn, k, exc)
            hist["status:" + status] = hist.get("status:" + status, 0) + 1
            evals += 1
            nontrivial.append((name, "line", k))
            fails = judge_operands(name, operands, pristine_obs, pristine_bat, grids, k, False)
            for tag, msg in fails:
                bad.setdefault(tag, (k, msg))
        for tag, (k, msg) in bad.items():
            viols.append({"case_id": "%s :: interrupt at a line event :: %s" % (name, tag), "what": "first at line event %d of %d: %s" % (k, n, msg), "replay": dict(spec, id="replay:" + spec["id"])})
        return {"violations": viols, "evals": evals, "nontrivial": nontrivial, "hist": hist, "sample": {"operation": name, "line_events": n}}

    def run(points, with_battery):
        def judge(operands, k):
            return judge_operands(name, operands, pristine_obs, pristine_bat, grids, k, with_battery)

        n, res, outcome = crash.forked_injections(en, make, fn, points, judge, exc)
        for k, (status, fails) in res.items():
            hist["status:" + status] = hist.get("status:" + status, 0) + 1
            if status == "harness-error":
                raise RuntimeError("judge failed in a forked child at event %d: %s" % (k, fails))
        return n, res, outcome

    epochs = None
    if mode in ("reduced", "xval"):
        rec = en.record(make, fn)
        epochs = rec["epochs"]
        hist["epochs:" + name] = len(epochs)
        pts = {a for a, b, _ in epochs} | {b for a, b, _ in epochs}
        n, res, outcome = run(pts, True)
        if n != rec["n_events"] or set(res) != pts:
            raise RuntimeError("replay of %s diverged (%d vs %d events): nondeterminism" % (name, n, rec["n_events"]))
    else:
        sh, nsh = spec.get("shard", 0), spec.get("nshards", 1)
        n, res, outcome = run(lambda k: k % nsh == sh, False)
    if spec.get("shard", 0) == 0:
        hist["events:%s:%s" % (name, "+".join(kinds))] = n
    hist["unfaulted:" + outcome] = hist.get("unfaulted:" + outcome, 0) + 1
    evals += len(res)
    for k in res:
        nontrivial.append((name, spec.get("events", "py"), tagx, k))
    if mode == "xval":
        nfull, full, _ = run(None, False)
        evals += len(full)
        for a, b, _ in epochs:
            want = bool([t for t, _ in res[a][1] if t.startswith("operand")])
            for k in range(a, b + 1):
                if bool(full[k][1]) != want:
                    viols.append({"case_id": "%s :: epoch reduction unsound at event %d" % (name, k), "what": "epoch [%d,%d] representative verdict %s, event verdict %s" % (a, b, want, bool(full[k][1])), "replay": dict(spec, id="replay:" + spec["id"])})
                    break
        hist["xval-events:" + name] = nfull
    # aggregate: one violation per (operation, failure tag), with the first failing event
    bad = {}
    nbad = 0
    for k in sorted(res):
        if res[k][1]:
            nbad += 1
        for tag, msg in res[k][1]:
            bad.setdefault(tag, (k, msg))
    hist["failing-points:" + name] = hist.get("failing-points:" + name, 0) + nbad
    for tag, (k, msg) in bad.items():
        viols.append({
            "case_id": "%s :: interrupt%s :: %s" % (name, tagx, tag),
            "what": "first at event %d of %d (%d of %d injection points of this run fail): %s" % (k, n, nbad, len(res), msg),
            "replay": dict(spec, id="replay:" + spec["id"]),
        })
    return {
        "violations": viols,
        "evals": evals,
        "nontrivial": nontrivial,
        "hist": hist,
        "sample": {"operation": name, "operands": [al.expr_id(e) for e in exprs], "mode": mode, "events": n, "epochs": len(epochs) if epochs else None, "injection_points": len(res)},
    }


def finalize(results, cov):
    h = cov["outcome_histogram"]
    errs = []
    if not h.get("status:injected"):
        errs.append("vacuity: no injection ever surfaced")
    if not any(k.startswith("rejected:") for k in h):
        errs.append("vacuity: no invalid argument was rejected")
    if not any(k.startswith("epochs:") and v > 1 for k, v in h.items()):
        errs.append("vacuity: no operation with more than one operand-state epoch")
    return errs
