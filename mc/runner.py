"""Driver shared by all property checks: parallel exhaustive execution of a case list,
time limits, known findings, replays and the evidence file.

A property module provides
    ID, LEVEL ('model_checking' | 'exploration' | 'fault_enumeration'), RULE (text),
    cases(tier, seed) -> list of JSON-able dicts, each with a unique "id",
    run_case(spec) -> dict with keys
        violations : [ {case_id, what, replay (a spec runnable by run_case)} ]
        evals      : int   number of evaluations/executions made
        nontrivial : list of hashable keys of distinct non-trivial cases
        states, transitions : ints (model-checking explorers)
        hist       : {bucket: count} outcome histogram (vacuity guard)
        sample     : anything JSON-able showing what the case looked like
        excluded   : int   cases moved out by the general-position validator
        caps       : list of strings (caps/time-outs that truncated the space)
    optional finalize(results, coverage) -> list of harness-error strings
    optional ASSUMPTIONS (list of strings), CASE_TIMEOUT (seconds)
"""
import hashlib
import json
import multiprocessing as mp
import os
import signal
import sys
import time
import traceback

VERIF = os.path.dirname(os.path.dirname(os.path.abspath(__file__)))
EVIDENCE_DIR = os.environ.get("VERIF_EVIDENCE_DIR") or os.path.join(VERIF, "evidence")
REPLAY_DIR = os.environ.get("VERIF_REPLAY_DIR") or os.path.join(VERIF, "replays")
FINDINGS = os.path.join(VERIF, "known_findings.json")
NPROC = int(os.environ.get("VERIF_NPROC", "16"))


class CaseTimeout(BaseException):
    pass


_FIRED = [0]


def _alarm(signum, frame):
    _FIRED[0] += 1
    raise CaseTimeout()


def call_limited(fn, secs):
    """Runs fn() under a wall-clock limit.  Returns ('ok', value), ('raise', exc) or
    ('timeout', None).  Restores an enclosing timer."""
    old_handler = signal.signal(signal.SIGALRM, _alarm)
    remaining, _ = signal.setitimer(signal.ITIMER_REAL, secs)
    t0 = time.time()
    fired0 = _FIRED[0]
    try:
        try:
            val = fn()
            signal.setitimer(signal.ITIMER_REAL, 0)
            return ("ok", val)
        except CaseTimeout:
            return ("timeout", None)
        except Exception as exc:  # noqa: BLE001 - a library failure is an observation
            signal.setitimer(signal.ITIMER_REAL, 0)
            if _FIRED[0] != fired0:
                # the alarm went off inside a C call (np.dot, __new__): CPython reports it as
                # SystemError "returned a result with an exception set" - it is a time-out
                return ("timeout", None)
            return ("raise", exc)
    finally:
        signal.setitimer(signal.ITIMER_REAL, 0)
        signal.signal(signal.SIGALRM, old_handler)
        if remaining:
            left = remaining - (time.time() - t0)
            signal.setitimer(signal.ITIMER_REAL, max(left, 0.01))


def exc_str(exc):
    s = "%s: %s" % (type(exc).__name__, exc)
    return s if len(s) < 300 else s[:300] + "..."


_MOD = None


def _worker(spec):
    t0 = time.time()
    limit = spec.get("timeout") or getattr(_MOD, "CASE_TIMEOUT", 300)
    signal.signal(signal.SIGALRM, _alarm)
    signal.setitimer(signal.ITIMER_REAL, limit)
    try:
        res = _MOD.run_case(spec)
        signal.setitimer(signal.ITIMER_REAL, 0)
    except CaseTimeout:
        res = {
            "violations": [
                {
                    "case_id": spec["id"],
                    "what": "no answer within %ss (hang)" % limit,
                    "replay": spec,
                }
            ],
            "caps": ["timeout:" + spec["id"]],
        }
    except BaseException as exc:  # noqa: BLE001
        signal.setitimer(signal.ITIMER_REAL, 0)
        tb = traceback.extract_tb(exc.__traceback__)
        src = os.path.realpath(os.environ.get("SHAPEPY_SRC", "/repo/src"))
        if tb and os.path.realpath(tb[-1].filename).startswith(src) and not isinstance(exc, (KeyboardInterrupt, SystemExit, MemoryError)):
            # an exception raised INSIDE the library during a harness step that has no
            # business failing (building an alphabet shape, reading a result, an auxiliary
            # query): the tree is broken, reported as a violation of this case
            res = {
                "violations": [
                    {
                        "case_id": spec["id"] + " :: library exception during an auxiliary step",
                        "what": exc_str(exc) + " at " + "%s:%d" % (os.path.basename(tb[-1].filename), tb[-1].lineno) + " | " + " <- ".join("%s:%d" % (os.path.basename(f.filename), f.lineno) for f in reversed(tb[-4:])),
                        "replay": spec,
                    }
                ]
            }
        else:
            res = {"harness_error": traceback.format_exc()}
    finally:
        signal.setitimer(signal.ITIMER_REAL, 0)
    res["id"] = spec["id"]
    res["wall"] = time.time() - t0
    return res


def pmap(mod, specs, nproc=None):
    global _MOD
    _MOD = mod
    nproc = nproc or NPROC
    if nproc <= 1 or len(specs) <= 1:
        return [_worker(s) for s in specs]
    ctx = mp.get_context("fork")
    # expensive cases first (spec["cost"] hint), results returned in the original order
    order = sorted(range(len(specs)), key=lambda i: -specs[i].get("cost", 1))
    with ctx.Pool(min(nproc, len(specs))) as pool:
        res = pool.map(_worker, [specs[i] for i in order], chunksize=1)
    out = [None] * len(specs)
    for i, r in zip(order, res):
        out[i] = r
    return out


def load_findings():
    if not os.path.exists(FINDINGS):
        return {}
    data = json.load(open(FINDINGS))
    known = {}
    for f in data.get("findings", []):
        if f.get("status") == "known":
            known[(f["property"], f["case_id"])] = f
    return known


def jsonable(o):
    from fractions import Fraction

    if isinstance(o, Fraction):
        return "%d/%d" % (o.numerator, o.denominator)
    if isinstance(o, (set, frozenset, tuple)):
        return [jsonable(x) for x in o]
    if isinstance(o, list):
        return [jsonable(x) for x in o]
    if isinstance(o, dict):
        return {str(k): jsonable(v) for k, v in o.items()}
    if isinstance(o, (str, int, float, bool)) or o is None:
        return o
    return repr(o)


def write_replay(pid, viol):
    d = os.path.join(REPLAY_DIR, pid)
    os.makedirs(d, exist_ok=True)
    body = jsonable(
        {
            "property": pid,
            "case_id": viol["case_id"],
            "what": viol["what"],
            "spec": viol["replay"],
            "how": "./check %s --replay <this file>" % pid,
        }
    )
    h = hashlib.sha1(json.dumps(body["spec"], sort_keys=True).encode() + viol["case_id"].encode()).hexdigest()[:12]
    path = os.path.join(d, h + ".json")
    with open(path, "w") as fh:
        json.dump(body, fh, indent=1, sort_keys=True)
    return path


def run_property(mod, tier, seed, only=None):
    t0 = time.time()
    pid = mod.ID
    try:
        specs = mod.cases(tier, seed)
    except Exception as exc:  # noqa: BLE001
        # the alphabets are built with the library's basic constructors: if those fail the
        # tree is broken at a level every property depends on
        v = {"case_id": "alphabet construction", "what": "building the input alphabet raises " + exc_str(exc) + " :: " + traceback.format_exc()[-600:], "replay": {"id": "alphabet"}}
        path = write_replay(pid, v)
        print("VIOLATION property=%s replay=%s" % (pid, path))
        print("   case: %s\n   what: %s" % (v["case_id"], v["what"]))
        return 1
    ids = [s["id"] for s in specs]
    if len(set(ids)) != len(ids):
        dup = sorted(i for i in set(ids) if ids.count(i) > 1)[:5]
        print("HARNESS ERROR: duplicate case ids", dup)
        return 2
    if only:
        specs = [s for s in specs if only in s["id"]]
        if not specs:
            print("HARNESS ERROR: no case id contains %r" % only)
            return 2
    results = pmap(mod, specs)
    if hasattr(mod, "post") and not only:
        # cross-case oracles (e.g. symmetry / transitivity over a matrix of answers)
        results.append({"id": "post", "violations": mod.post(results), "wall": 0})
    herr = [r for r in results if "harness_error" in r]
    if herr:
        for r in herr[:5]:
            print("HARNESS ERROR in case %s:\n%s" % (r["id"], r["harness_error"]))
        return 2
    known = load_findings()
    violations, knowns = [], []
    seen_ids = set()
    for r in results:
        for v in r.get("violations", []):
            if v["case_id"] in seen_ids:
                continue
            seen_ids.add(v["case_id"])
            if (pid, v["case_id"]) in known:
                knowns.append(v)
            else:
                violations.append(v)
    # a violation must reproduce from its replay spec before it is believed
    flaky = []
    if violations:
        recheck = pmap(mod, [dict(v["replay"], id=v["replay"].get("id", v["case_id"])) for v in violations[:16]])
        for v, r in zip(violations[:16], recheck):
            again = {x["case_id"] for x in r.get("violations", [])}
            if "harness_error" in r or v["case_id"] not in again:
                flaky.append((v, r.get("harness_error", "did not reproduce")))
    # coverage
    cov = {
        "evaluations": sum(r.get("evals", 0) for r in results),
        "rule": mod.RULE,
        "cases": len(specs),
    }
    nontriv = set()
    for r in results:
        for k in r.get("nontrivial", []):
            nontriv.add(json.dumps(jsonable(k), sort_keys=True))
    cov["distinct_nontrivial"] = len(nontriv)
    states = sum(r.get("states", 0) for r in results)
    trans = sum(r.get("transitions", 0) for r in results)
    if mod.LEVEL == "model_checking":
        cov["states"] = states
        cov["transitions"] = trans
        cov["traces_validated_against_impl"] = trans
    hist = {}
    for r in results:
        for k, n in r.get("hist", {}).items():
            hist[k] = hist.get(k, 0) + n
    cov["outcome_histogram"] = dict(sorted(hist.items()))
    cov["excluded_by_general_position_validator"] = sum(r.get("excluded", 0) for r in results)
    caps = []
    for r in results:
        caps += r.get("caps", [])
    cov["caps_hit"] = caps[:50]
    cov["exhaustive"] = not caps
    samples = [r["sample"] for r in results if r.get("sample") is not None]
    step = max(1, len(samples) // 6)
    cov["samples"] = jsonable(samples[::step][:8]) or [jsonable(specs[0])]
    cov["known_findings_seen"] = len(knowns)
    cov["slowest_case_s"] = round(max((r["wall"] for r in results), default=0), 2)
    errs = []
    if hasattr(mod, "finalize"):
        errs = mod.finalize(results, cov) or []
        if only or violations:
            # vacuity guards only make sense on the full case list of a tree on which the
            # property holds: with violations present an empty bucket is a consequence
            errs = []
    ev = {
        "property_id": pid,
        "tier": tier,
        "seed": seed,
        "level": mod.LEVEL,
        "coverage": cov,
        "assumptions": getattr(mod, "ASSUMPTIONS", []),
        "wall_s": round(time.time() - t0, 2),
        "violations": len(violations),
    }
    if not only:
        os.makedirs(EVIDENCE_DIR, exist_ok=True)
        with open(os.path.join(EVIDENCE_DIR, pid + ".json"), "w") as fh:
            json.dump(jsonable(ev), fh, indent=1, sort_keys=True)
    for v in knowns:
        print("KNOWN-FINDING: property=%s %s :: %s" % (pid, v["case_id"], v["what"]))
    print(
        "%s tier=%s seed=%d cases=%d evaluations=%d nontrivial=%d states=%d transitions=%d "
        "known=%d violations=%d wall=%.1fs"
        % (pid, tier, seed, len(specs), cov["evaluations"], cov["distinct_nontrivial"], states, trans, len(knowns), len(violations), time.time() - t0)
    )
    if errs or flaky:
        for v in violations[:10]:
            print("   (unconfirmed) case: %s\n   what: %s" % (v["case_id"], v["what"]))
        for e in errs:
            print("HARNESS ERROR:", e)
        for v, why in flaky:
            print("HARNESS ERROR: non-reproducible observation %s: %s" % (v["case_id"], why))
        return 2
    if violations:
        for v in violations:
            path = write_replay(pid, v)
            print("VIOLATION property=%s replay=%s" % (pid, path))
            print("   case: %s\n   what: %s" % (v["case_id"], v["what"]))
        return 1
    return 0


def replay(mod, path):
    body = json.load(open(path))
    spec = body["spec"]
    spec.setdefault("id", body["case_id"])
    global _MOD
    _MOD = mod
    res = _worker(spec)
    if "harness_error" in res:
        print("HARNESS ERROR:\n" + res["harness_error"])
        return 2
    hit = [v for v in res.get("violations", []) if v["case_id"] == body["case_id"]]
    other = [v for v in res.get("violations", []) if v["case_id"] != body["case_id"]]
    for v in hit + other:
        print("VIOLATION property=%s replay=%s" % (mod.ID, path))
        print("   case: %s\n   what: %s" % (v["case_id"], v["what"]))
    if not hit and not other:
        print("replay passes: %s" % body["case_id"])
        return 0
    return 1


def main(argv):
    import argparse
    import importlib

    ap = argparse.ArgumentParser()
    ap.add_argument("prop")
    ap.add_argument("--tier", default=os.environ.get("VERIF_TIER", "quick"))
    ap.add_argument("--replay")
    ap.add_argument("--only", help="run only cases whose id contains this text (no evidence written)")
    args = ap.parse_args(argv)
    seed = int(os.environ.get("VERIF_SEED", "0") or 0)
    mod = importlib.import_module("mc.props." + args.prop.lower())
    if args.replay:
        return replay(mod, args.replay)
    return run_property(mod, args.tier, seed, args.only)
