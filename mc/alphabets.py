"""Finite, named input alphabets and the expression language shared by the checks.

A *leaf* is named  <family>.<name>#<variant>[@cw]   (e.g. P.sqA#int, P.triA#frac@cw);
an *expression* is a nested list:
    ["L", leafname] | ["V", [[x, y], ...]] | ["E"] | ["W"]
    ["~", e] | ["neg", e] | [op, e1, e2]     op in | & - ^ + *
Numbers inside "V" are ints, floats or strings "p/q".
Leaves are always rebuilt from scratch (fresh library objects) on every evaluation.
"""
from fractions import Fraction as F
from itertools import combinations
import math

from . import refgeo as rg

# --------------------------------------------------------------------------- polygon families
P_POLYS = {
    "sqA": [(0, 0), (10, 0), (10, 10), (0, 10)],
    "sqB": [(5, 4), (16, 4), (16, 15), (5, 15)],
    "triA": [(-3, -2), (14, 3), (2, 17)],
    "bar": [(-5, 6), (19, 7), (19, 9), (-5, 8)],
    "dia": [(7, -6), (18, 6), (8, 19), (-4, 7)],
    "inner": [(2, 3), (4, 2), (3, 5)],
    "L": [(-2, -4), (12, -4), (12, 1), (1, 1), (1, 13), (-2, 13)],
    "notch": [(7, 11), (9, 12), (8, 14), (6, 13)],
    "far": [(40, 41), (47, 40), (44, 48)],
    "big": [(-9, -10), (25, -9), (26, 23), (-8, 24)],
    "U": [(-6, -7), (21, -6), (20, 18), (15, 18), (14, 0), (3, 2), (2, 18), (-5, 17)],
}
P_ORDER = ["sqA", "sqB", "triA", "bar", "dia", "inner", "L", "notch", "far", "big", "U"]
# four nested irregular quadrilaterals N1 > N2 > N3 > N4 (and a small one beside N4 inside N3)
N_POLYS = {
    "N1": [(-20, -21), (31, -19), (33, 30), (-19, 32)],
    "N2": [(-9, -10), (25, -9), (26, 23), (-8, 24)],
    "N3": [(-1, -3), (18, -1), (17, 16), (-3, 15)],
    "N4": [(4, 5), (11, 4), (12, 10), (5, 11)],
    "N5": [(0, 0), (2, -1), (3, 2), (1, 3)],
}


def _lattice_triangles(coords):
    pts = [(x, y) for x in coords for y in coords]
    out = []
    for a, b, c in combinations(pts, 3):
        cr = (b[0] - a[0]) * (c[1] - a[1]) - (b[1] - a[1]) * (c[0] - a[0])
        if cr == 0:
            continue
        out.append([a, b, c] if cr > 0 else [a, c, b])
    return out


TT_A = _lattice_triangles((0, 2, 4))
TT_B = _lattice_triangles((1, 3, 5))
T3 = _lattice_triangles((0, 1, 2, 3))


def _lattice_quads(coords):
    pts = [(x, y) for x in coords for y in coords]
    out = []
    seen = set()
    from itertools import permutations

    for quad in combinations(pts, 4):
        for perm in permutations(quad[1:]):
            poly = [quad[0]] + list(perm)
            fp = [rg.P(*p) for p in poly]
            if rg.area2(fp) <= 0:
                continue
            if not rg.polygon_is_simple(fp):
                continue
            # exclude collinear consecutive vertices
            if any(rg.cross(fp[i - 1], fp[i], fp[(i + 1) % 4]) == 0 for i in range(4)):
                continue
            key = rg.canon_cycle(fp)
            if key in seen:
                continue
            seen.add(key)
            out.append(poly)
    return out


_Q3 = None


def Q3():
    global _Q3
    if _Q3 is None:
        _Q3 = _lattice_quads((0, 1, 2))
    return _Q3


# --------------------------------------------------------------------------- numeric variants
def variant_map(variant):
    """Returns fn(x, y, index) -> (x', y') producing the stored number types."""
    if variant == "int":
        return lambda x, y, i: (x, y)
    if variant == "frac":
        return lambda x, y, i: (F(x, 3) + F(1, 7), F(y, 3) + F(1, 7))
    if variant == "float":
        return lambda x, y, i: (0.25 * x + 0.1, 0.25 * y + 0.1)
    if variant == "fint":  # floats with the integer values (exactly representable)
        return lambda x, y, i: (float(x), float(y))
    if variant == "mixed":
        return lambda x, y, i: (float(x), float(y)) if i % 2 else (F(x), F(y))
    if variant == "half":  # Fractions with denominator 2, exactly representable as floats
        return lambda x, y, i: (F(x, 2), F(y, 2))
    if variant == "fhalf":
        return lambda x, y, i: (0.5 * x, 0.5 * y)
    if variant == "rnd":  # unrelated three-digit denominators: crossing parameters get huge denominators
        dens = (101, 103, 107, 109, 113, 127, 131, 137, 139, 149)
        return lambda x, y, i: (x + F(i + 1, dens[i % 10]), y - F(2 * i + 1, dens[(i + 3) % 10]))
    if variant == "fr1":  # Fraction objects with denominator 1
        return lambda x, y, i: (F(x), F(y))
    if variant == "ifr":  # int and Fraction mixed inside one point
        return lambda x, y, i: (x, F(y)) if i % 2 else (F(x), y)
    if variant.startswith("q"):  # denominator ladder: x*(q+1)/q (unit scale, denominators q)
        q = int(variant[1:])
        return lambda x, y, i: (F(x * (q + 1), q), F(y * (q + 1), q))
    raise ValueError(variant)


def parse_num(v):
    if isinstance(v, str):
        return F(v)
    return v


def dump_num(v):
    if isinstance(v, F):
        return "%d/%d" % (v.numerator, v.denominator) if v.denominator != 1 else int(v)
    if isinstance(v, (int, float)):
        return v
    return float(v)


# --------------------------------------------------------------------------- curved family (float)
def _circle(radius, center, ndiv):
    return ("circle", radius, center, ndiv)


Q_SHAPES = {
    "c16": ("circle", 1.0, (0.0, 0.0), 16),
    "c8": ("circle", 1.0, (0.25, 0.125), 8),
    "c4": ("circle", 1.0, (0.0, 0.0), 4),
    "c5": ("circle", 0.75, (0.5, 0.25), 5),
    "c16b": ("circle", 0.8, (0.9, 0.3), 16),
    "c8s": ("circle", 0.4, (0.1, -0.05), 8),
    "c8far": ("circle", 0.5, (5.0, 5.0), 8),
    "lens": (
        "ctrl",
        [
            [(-1.0, 0.0), (0.0, -1.25), (1.0, 0.0)],
            [(1.0, 0.0), (0.0, 1.25), (-1.0, 0.0)],
        ],
    ),
    "blob": (
        "ctrl",
        [
            [(-1.0, -0.5), (0.0, -1.5), (1.5, -1.0), (1.25, 0.25)],
            [(1.25, 0.25), (1.0, 1.5), (-0.5, 1.25), (-1.0, 0.5)],
            [(-1.0, 0.5), (-1.25, 0.0), (-1.25, -0.25), (-1.0, -0.5)],
        ],
    ),
    "rsq": (
        "ctrl",
        [
            [(-0.75, -1.0), (0.75, -1.0)],
            [(0.75, -1.0), (1.0, -1.0), (1.0, -0.75)],
            [(1.0, -0.75), (1.0, 0.75)],
            [(1.0, 0.75), (1.0, 1.0), (0.75, 1.0)],
            [(0.75, 1.0), (-0.75, 1.0)],
            [(-0.75, 1.0), (-1.0, 1.0), (-1.0, 0.75)],
            [(-1.0, 0.75), (-1.0, -0.75)],
            [(-1.0, -0.75), (-1.0, -1.0), (-0.75, -1.0)],
        ],
    ),
    # cubic arcs with coincident control points (doubled handle / zero-length handle): distinct
    # Point2D objects at the same position
    "dblh": (
        "ctrl",
        [
            [(0.0, 0.0), (2.0, -2.0), (2.0, -2.0), (4.0, 0.0)],
            [(4.0, 0.0), (4.0, 3.0)],
            [(4.0, 3.0), (0.0, 3.0)],
            [(0.0, 3.0), (0.0, 0.0)],
        ],
    ),
    "zeroh": (
        "ctrl",
        [
            [(0.0, 0.0), (0.0, 0.0), (3.0, -3.0), (4.0, 0.0)],
            [(4.0, 0.0), (2.0, 4.0)],
            [(2.0, 4.0), (0.0, 0.0)],
        ],
    ),
    # small squares that live inside the bulge of a curved segment (beyond the chord end points)
    "c6": ("circle", 1.0, (0.0, 0.0), 6),
    "bulgesq": ("verts", [(-0.25, 0.5), (0.25, 0.5), (0.25, 1.0), (-0.25, 1.0)]),
    "tinysq": ("verts", [(-0.025, 0.895), (0.025, 0.895), (0.025, 0.945), (-0.025, 0.945)]),
    "outsq": ("verts", [(1.2, 1.2), (1.6, 1.2), (1.6, 1.6), (1.2, 1.6)]),
    # curved boundaries with INTEGER control points (exact Newton iterations inside the library)
    "iarch": ("ctrl", [[(0, 0), (3, 5), (6, 0)], [(6, 0), (0, 0)]]),
    "ibox": ("verts", [(1, 1), (7, 2), (7, -3), (1, -3)]),
    "ikite": ("verts", [(3, -1), (5, 2), (3, 4), (1, 2)]),
    "ilens": ("ctrl", [[(-2, 0), (0, -3), (2, 0)], [(2, 0), (0, 3), (-2, 0)]]),
    # half discs bounded by consecutive arcs of a circle of the alphabet and the closing chord:
    # they SHARE those arcs with the circle
    "halfc8": ("arcs", "c8", 6, 4),
    "halfc16": ("arcs", "c16", 3, 8),
    # a boundary made of ONE closed cubic segment (teardrop with its corner at the start point)
    "tear": ("ctrl", [[(0.0, 0.0), (2.0, 2.0), (-2.0, 2.0), (0.0, 0.0)]]),
    "tearg": ("ctrl", [[(1.25, 0.5), (4.0, 1.5), (0.5, 3.75), (1.25, 0.5)]]),
    # two arcs of different segments aiming at the SAME control point position (distinct objects)
    "pinch": ("ctrl", [[(0.0, 0.0), (2.0, 2.0), (4.0, 0.0)], [(4.0, 0.0), (4.0, 4.0)], [(4.0, 4.0), (2.0, 2.0), (0.0, 4.0)], [(0.0, 4.0), (0.0, 0.0)]]),
    "ipinch": ("ctrl", [[(0, 0), (2, 2), (4, 0)], [(4, 0), (4, 4)], [(4, 4), (2, 2), (0, 4)], [(0, 4), (0, 0)]]),
    # a straight side written as a quadratic / cubic segment (degree-elevated line) between arcs
    "elev": ("ctrl", [[(0.0, 0.0), (1.0, 0.0), (2.0, 1.0)], [(2.0, 1.0), (2.0, 3.0), (0.0, 2.0)], [(0.0, 2.0), (-1.0, 1.0), (-1.0, 0.0)], [(-1.0, 0.0), (-0.5, 0.0), (0.0, 0.0)]]),
    "elev3": ("ctrl", [[(0.0, 0.0), (1.0, 0.0), (2.0, 0.0), (3.0, 0.0)], [(3.0, 0.0), (4.0, 1.0), (4.0, 2.0), (3.0, 3.0)], [(3.0, 3.0), (2.0, 3.0), (1.0, 3.0), (0.0, 3.0)], [(0.0, 3.0), (-1.0, 2.0), (-1.0, 1.0), (0.0, 0.0)]]),
    # boundaries that share control points (and whole sides) but group them into segments of
    # different degrees: a square, the same with one corner rounded, with a cubic over two corners
    # (float data: exact Newton iterations on integer curved data take tens of minutes)
    "cpsq": ("verts", [(0.0, 0.0), (2.0, 0.0), (2.0, 2.0), (0.0, 2.0)]),
    "cprs": ("ctrl", [[(0.0, 0.0), (2.0, 0.0), (2.0, 2.0)], [(2.0, 2.0), (0.0, 2.0)], [(0.0, 2.0), (0.0, 0.0)]]),
    "cpcub": ("ctrl", [[(0.0, 0.0), (2.0, 0.0), (2.0, 2.0), (0.0, 2.0)], [(0.0, 2.0), (0.0, 0.0)]]),
    "cplens": ("ctrl", [[(0.0, 0.0), (2.0, 0.0), (2.0, 2.0)], [(2.0, 2.0), (0.0, 2.0), (0.0, 0.0)]]),
    # mixed degrees in generic position (nothing on an axis, nothing symmetric about the origin)
    "mixg": (
        "ctrl",
        [
            [(1.0, 1.0), (5.0, 1.5)],
            [(5.0, 1.5), (5.5, 4.0), (1.5, 4.5)],
            [(1.5, 4.5), (1.0, 1.0)],
        ],
    ),
    # a boundary with an S-shaped cubic (inner control points on opposite sides of the chord)
    "scub": (
        "ctrl",
        [
            [(0.0, 0.0), (1.0, 3.0), (2.0, -3.0), (3.0, 0.0)],
            [(3.0, 0.0), (3.0, 4.0)],
            [(3.0, 4.0), (0.0, 4.0)],
            [(0.0, 4.0), (0.0, 0.0)],
        ],
    ),
    # a disc that overlaps c16 only inside one arc of each circle (two-segment lens)
    "c16near": ("circle", 1.0, (1.98 * 0.8314696123025452, 1.98 * 0.5555702330196022), 16),
    # a lens shifted against "lens": the overlap is bounded by one arc of each
    "lens2": (
        "ctrl",
        [
            [(-0.25, 1.0), (0.75, -0.5), (1.75, 1.0)],
            [(1.75, 1.0), (0.75, 2.5), (-0.25, 1.0)],
        ],
    ),
    # a square whose lower edge cuts a cap out of one quarter-arc of c4
    "fcap": ("verts", [(0.15, 0.9), (1.3, 0.35), (1.75, 1.3), (0.6, 1.85)]),
    # float polygons living at the scale of the curved family
    "fsq": ("verts", [(-0.6, -0.7), (0.9, -0.65), (0.85, 0.8), (-0.55, 0.75)]),
    "ftri": ("verts", [(-1.3, -0.4), (1.4, -0.1), (0.1, 1.45)]),
    "fbar": ("verts", [(-1.5, -0.15), (1.5, -0.1), (1.5, 0.2), (-1.5, 0.15)]),
}
Q_ORDER = ["c16", "c8", "c4", "c5", "c16b", "c8s", "c8far", "lens", "blob", "rsq", "fsq", "ftri", "fbar", "scub", "dblh", "zeroh", "c16near", "lens2", "fcap", "mixg"]


# --------------------------------------------------------------------------- leaf data
def leaf_data(name):
    """Returns ('verts', [(x,y),...]) or ('ctrl', [[(x,y)..]..]) or ('circle', r, c, n)
    with numbers already in their stored types, orientation applied."""
    cw = name.endswith("@cw")
    if cw:
        name = name[:-3]
    base, _, variant = name.partition("#")
    fam, _, key = base.partition(".")
    variant = variant or "int"
    if fam == "P":
        verts = P_POLYS[key]
    elif fam == "N":
        verts = N_POLYS[key]
    elif fam == "TA":
        verts = TT_A[int(key)]
    elif fam == "TB":
        verts = TT_B[int(key)]
    elif fam == "T3":
        verts = T3[int(key)]
    elif fam == "Q3":
        verts = Q3()[int(key)]
    elif fam == "Q":
        d = Q_SHAPES[key]
        if d[0] == "circle":
            return d + (cw,)
        if d[0] == "arcs":
            from . import lib

            c = Q_SHAPES[d[1]]
            circ = lib.Primitive.circle(radius=c[1], center=c[2], ndivangle=c[3]).jordans[0]
            n = len(circ.segments)
            segs = [[(float(q[0]), float(q[1])) for q in circ.segments[(d[2] + i) % n].ctrlpoints] for i in range(d[3])]
            segs.append([segs[-1][-1], segs[0][0]])
            if cw:
                segs = [list(reversed(sg)) for sg in reversed(segs)]
            return ("ctrl", segs)
        if d[0] == "verts":
            verts = list(d[1])
            if cw:
                verts = [verts[0]] + verts[:0:-1]
            return ("verts", verts)
        segs = [list(s) for s in d[1]]
        if cw:
            segs = [list(reversed(s)) for s in reversed(segs)]
        return ("ctrl", segs)
    else:
        raise KeyError(name)
    fn = variant_map(variant)
    verts = [fn(x, y, i) for i, (x, y) in enumerate(verts)]
    if cw:
        verts = [verts[0]] + verts[:0:-1]
    return ("verts", verts)


def build_leaf(name):
    """Fresh library SimpleShape for a leaf name."""
    from . import lib

    d = leaf_data(name)
    if d[0] == "verts":
        return lib.SimpleShape(lib.JordanCurve.from_vertices(d[1]))
    if d[0] == "ctrl":
        return lib.SimpleShape(lib.JordanCurve.from_ctrlpoints(d[1]))
    if d[0] == "circle":
        s = lib.Primitive.circle(radius=d[1], center=d[2], ndivangle=d[3])
        if d[4]:
            s.invert()
        return s
    raise ValueError(d)


def build_warm_leaf(name):
    """The same shape as build_leaf(name) (rational polygon leaves only), but as an object
    with a past: built 37 units to the right and 11 down, asked every kind of question there,
    then moved back in place.  Its geometry is exactly that of the plain leaf; anything the
    library remembered about the old position must not influence later answers."""
    from . import lib

    d = leaf_data(name)
    assert d[0] == "verts" and all(not isinstance(v, float) for p in d[1] for v in p), "warm leaves are rational polygons"
    S = lib.SimpleShape(lib.JordanCurve.from_vertices([(x + 37, y - 11) for x, y in d[1]]))
    other = lib.SimpleShape(lib.JordanCurve.from_vertices([(30, -20), (60, -15), (45, 10)]))
    S.box()
    float(S)
    j = S.jordans[0]
    float(j)
    j.box()
    (38, -10) in S
    j.intersection(other.jordans[0])
    other.jordans[0].intersection(j)
    other in S
    S in other
    S == other
    lib.IntegrateShape.polynomial(S, 1, 1)
    for seg in j.segments:
        seg.box()
        seg.derivate()
    S.move(-37, 11)
    return S


def verts_shape(verts):
    from . import lib

    verts = [(parse_num(x), parse_num(y)) for x, y in verts]
    return lib.SimpleShape(lib.JordanCurve.from_vertices(verts))


def leaf_region(name):
    """Reference region of a leaf built from the alphabet data only (circles: from the
    control points of the built object, see C16 for the factory itself)."""
    d = leaf_data(name)
    if d[0] == "verts":
        vs = [rg.P(x, y) for x, y in d[1]]
        n = len(vs)
        return rg.Region("simple", rg.RCurve([[vs[i], vs[(i + 1) % n]] for i in range(n)]))
    if d[0] == "ctrl":
        return rg.Region("simple", rg.RCurve(d[1]))
    return rg.interpret(build_leaf(name))


def verts_region(verts):
    vs = [rg.P(parse_num(x), parse_num(y)) for x, y in verts]
    n = len(vs)
    return rg.Region("simple", rg.RCurve([[vs[i], vs[(i + 1) % n]] for i in range(n)]))


# --------------------------------------------------------------------------- composite (PC) family
PC_DEFS = {
    # name: (kind, [members])  members are leaf names or nested PC names prefixed by '='
    "hollow": ("C", ["P.big", "P.inner@cw", "P.notch@cw"]),
    "two": ("D", ["P.inner", "P.far"]),
    "holeisland": ("D", ["=ring", "P.inner"]),
    "ring": ("C", ["P.big", "P.sqA@cw"]),
    "ringfar": ("D", ["=ringB", "P.far"]),
    "ringB": ("C", ["P.sqB", "P.notch@cw"]),
    "xhollow": ("D", ["P.big@cw", "P.inner", "P.notch"]),  # complement of hollow
    "xtwo": ("C", ["P.inner@cw", "P.far@cw"]),  # complement of two
    "xring": ("D", ["P.big@cw", "P.sqA"]),
    # unbounded, holes close together: the box of its curves is far from P.far
    "xnear": ("C", ["P.inner@cw", "P.notch@cw"]),
    "twonear": ("D", ["P.inner", "P.notch"]),
}
PC_ORDER = ["hollow", "two", "holeisland", "ringfar", "xhollow", "xtwo", "ring", "xring", "xnear", "twonear"]


def _with_variant(member, variant):
    cw = member.endswith("@cw")
    m = member[:-3] if cw else member
    return m + "#" + variant + ("@cw" if cw else "")


def build_pc(name, variant="int"):
    from . import lib

    kind, members = PC_DEFS[name]
    subs = []
    for m in members:
        if m.startswith("="):
            subs.append(build_pc(m[1:], variant))
        else:
            subs.append(build_leaf(_with_variant(m, variant)))
    if kind == "C":
        return lib.ConnectedShape(subs)
    return lib.DisjointShape(subs)


def pc_region(name, variant="int"):
    kind, members = PC_DEFS[name]
    subs = []
    for m in members:
        if m.startswith("="):
            subs.append(pc_region(m[1:], variant))
        else:
            subs.append(leaf_region(_with_variant(m, variant)))
    return rg.Region("and" if kind == "C" else "or", None, subs)


def pc_leaves(name, variant="int"):
    kind, members = PC_DEFS[name]
    out = []
    for m in members:
        if m.startswith("="):
            out += pc_leaves(m[1:], variant)
        else:
            out.append(_with_variant(m, variant))
    return out


def generic_map(p):
    """An affine map with nothing special about it (positive determinant)."""
    x, y = p
    return (1.1 * x + 0.3 * y + 2.3, -0.2 * x + 0.9 * y + 1.7)


def build_generic(name):
    """Image of a Q leaf under generic_map, built from mapped control points."""
    from . import lib

    S = build_leaf(name)
    ctrl = [[generic_map((float(p._x), float(p._y))) for p in sg.ctrlpoints] for sg in S.jordans[0].segments]
    return lib.SimpleShape(lib.JordanCurve.from_ctrlpoints(ctrl))


def build_scaled(name, factor):
    """A Q leaf with all control points multiplied by factor (string 'p/q' -> exact binary
    fraction expected), built from the scaled control points (not by the library's scale)."""
    from . import lib

    f = float(F(factor))
    S = build_leaf(name)
    ctrl = [[(float(p._x) * f, float(p._y) * f) for p in sg.ctrlpoints] for sg in S.jordans[0].segments]
    return lib.SimpleShape(lib.JordanCurve.from_ctrlpoints(ctrl))


def build_translated(name, dx, dy):
    """A Q leaf built (fresh, from translated control points) at another position."""
    from . import lib

    S = build_leaf(name)
    ctrl = [[(float(p._x) + float(dx), float(p._y) + float(dy)) for p in sg.ctrlpoints] for sg in S.jordans[0].segments]
    return lib.SimpleShape(lib.JordanCurve.from_ctrlpoints(ctrl))


def build_cq(name):
    """Curved composite shapes built with the constructors."""
    from . import lib

    big = build_leaf("Q.c16")
    big.scale(3.0, 3.0)
    if name == "ringc":
        return lib.ConnectedShape([big, build_leaf("Q.lens@cw")])
    if name == "twoc":
        return lib.DisjointShape([build_leaf("Q.c8s"), build_leaf("Q.c8far")])
    if name == "xringc":
        big.invert()
        return lib.DisjointShape([big, build_leaf("Q.blob")])
    raise KeyError(name)


# --------------------------------------------------------------------------- expressions
BINOPS = ("|", "&", "-", "^", "+", "*")


def expr_id(e):
    t = e[0]
    if t == "L":
        return e[1]
    if t == "WL":
        return "warm:" + e[1]
    if t == "MV":
        return "moved(%s by %s,%s)" % (expr_id(e[1]), e[2], e[3])
    if t == "CQ":
        return "CQ." + e[1]
    if t == "G":
        return "affine(" + e[1] + ")"
    if t == "SCL":
        return "scaled(%s x %s)" % (e[1], e[2])
    if t == "TR":
        return "at(%s + (%s,%s))" % (e[1], e[2], e[3])
    if t == "SP":
        return "split(" + expr_id(e[1]) + ")"
    if t == "PC":
        return "PC." + e[1] + "#" + (e[2] if len(e) > 2 else "int")
    if t == "V":
        return "V[" + " ".join("%s,%s" % (dump_num(parse_num(x)), dump_num(parse_num(y))) for x, y in e[1]) + "]"
    if t == "E":
        return "Empty"
    if t == "W":
        return "Whole"
    if t == "~":
        return "~(" + expr_id(e[1]) + ")"
    if t == "neg":
        return "-(" + expr_id(e[1]) + ")"
    return "(" + expr_id(e[1]) + " " + t + " " + expr_id(e[2]) + ")"


def expr_leaves(e):
    t = e[0]
    if t in ("L", "V", "PC", "WL"):
        return [e]
    if t in ("MV", "CQ", "G", "SP", "SCL", "TR"):
        return [e]
    if t in ("E", "W"):
        return []
    out = []
    for sub in e[1:]:
        out += expr_leaves(sub)
    return out


def lib_eval(e, trace=None):
    """Evaluates the expression with the real library on freshly built leaves."""
    from . import lib

    t = e[0]
    if t == "L":
        return build_leaf(e[1])
    if t == "WL":
        return build_warm_leaf(e[1])
    if t == "CQ":
        return build_cq(e[1])
    if t == "G":
        return build_generic(e[1])
    if t == "SCL":
        return build_scaled(e[1], e[2])
    if t == "TR":
        return build_translated(e[1], e[2], e[3])
    if t == "SP":
        # the same shape with redundant vertices: every boundary curve split at two places
        X = lib_eval(e[1])
        for j in rg.all_jordans(X):
            n = len(j.segments)
            j.split([0, n - 1], [F(1, 2), F(1, 3)])
        return X
    if t == "MV":
        # an object with a past: used in operators and queries, then moved in place
        X = lib_eval(e[1])
        X | ~X
        X in X
        float(X)
        X.box()
        X.move(parse_num(e[2]), parse_num(e[3]))
        return X
    if t == "PC":
        return build_pc(e[1], e[2] if len(e) > 2 else "int")
    if t == "V":
        return verts_shape(e[1])
    if t == "E":
        return lib.EmptyShape()
    if t == "W":
        return lib.WholeShape()
    if t == "~":
        return ~lib_eval(e[1], trace)
    if t == "neg":
        return -lib_eval(e[1], trace)
    a = lib_eval(e[1], trace)
    b = lib_eval(e[2], trace)
    if t == "|":
        r = a | b
    elif t == "&":
        r = a & b
    elif t == "-":
        r = a - b
    elif t == "^":
        r = a ^ b
    elif t == "+":
        r = a + b
    elif t == "*":
        r = a * b
    else:
        raise ValueError(t)
    if trace is not None:
        trace.append((e, a, b, r))
    return r


def model_eval(e):
    t = e[0]
    if t in ("L", "WL"):
        return leaf_region(e[1])
    if t == "CQ":
        return rg.interpret(build_cq(e[1]))
    if t == "G":
        return rg.interpret(build_generic(e[1]))
    if t == "SCL":
        return rg.interpret(build_scaled(e[1], e[2]))
    if t == "TR":
        return rg.interpret(build_translated(e[1], e[2], e[3]))
    if t == "SP":
        return model_eval(e[1])
    if t == "MV":
        dx, dy = rg.ex(parse_num(e[2])), rg.ex(parse_num(e[3]))
        return model_eval(e[1]).image(lambda p: (p[0] + dx, p[1] + dy))
    if t == "PC":
        return pc_region(e[1], e[2] if len(e) > 2 else "int")
    if t == "V":
        return verts_region(e[1])
    if t == "E":
        return rg.EMPTY
    if t == "W":
        return rg.WHOLE
    if t in ("~", "neg"):
        return rg.r_not(model_eval(e[1]))
    return rg.MODEL_OPS[t](model_eval(e[1]), model_eval(e[2]))


def leaf_curves(e):
    """Reference curves of one leaf expression (list of RCurve)."""
    return model_eval(e).curves()


def expr_general_position(e):
    """True iff all leaves of the expression are polygonal and in (pair and triple)
    general position, deciding transversality of every operand pair in the program."""
    leaves = expr_leaves(e)
    sets = [leaf_curves(l) for l in leaves]
    if not all(c.is_poly for s in sets for c in s):
        return None
    return rg.regions_general_position(sets)
