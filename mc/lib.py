"""Loads shapepy from the tree under verification.

The source directory is /repo/src unless SHAPEPY_SRC overrides it (used only by the
mutant self-test, which checks scratch copies).  Every check imports the library through
this module so that a run always sees the current working tree.
"""
import os
import sys
import warnings

os.environ.setdefault("MPLBACKEND", "Agg")
os.environ.setdefault("SHAPEPY_VERIF", "1")
warnings.filterwarnings("ignore", category=SyntaxWarning)

SRC = os.environ.get("SHAPEPY_SRC", "/repo/src")
if SRC in sys.path:
    sys.path.remove(SRC)
sys.path.insert(0, SRC)

import shapepy  # noqa: E402

_real = os.path.realpath(os.path.dirname(shapepy.__file__))
if not _real.startswith(os.path.realpath(SRC)):
    raise SystemExit(
        "HARNESS ERROR: shapepy imported from %s, expected under %s" % (_real, SRC)
    )

from shapepy import (  # noqa: E402
    ConnectedShape,
    DisjointShape,
    EmptyShape,
    IntegrateJordan,
    IntegratePlanar,
    IntegrateShape,
    JordanCurve,
    PlanarCurve,
    Point2D,
    Primitive,
    SimpleShape,
    WholeShape,
)
from shapepy.shape import BaseShape, DefinedShape  # noqa: E402
from shapepy.polygon import Box  # noqa: E402
import shapepy.curve as curve_mod  # noqa: E402
import shapepy.jordancurve as jordan_mod  # noqa: E402
import shapepy.shape as shape_mod  # noqa: E402
import shapepy.polygon as polygon_mod  # noqa: E402
import shapepy.primitive as primitive_mod  # noqa: E402

SRC_DIR = os.path.realpath(SRC)
PKG_DIR = _real
