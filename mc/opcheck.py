"""Program explorer pieces shared by C01 (membership), C05 (measures) and C06
(well-formedness): execute an operator expression on the real library from fresh leaves
and judge the result against the reference model."""
from fractions import Fraction as F

from . import alphabets as al
from . import refgeo as rg
from .runner import call_limited, exc_str

OP_LIMIT = 120  # seconds; the unchanged tree needs < 1 s for polygons


def run_expr(e, limit=OP_LIMIT):
    return call_limited(lambda: al.lib_eval(e), limit)


def leaves_info(e):
    leaves = al.expr_leaves(e)
    sets = [al.leaf_curves(l) for l in leaves]
    curves = [c for s in sets for c in s]
    poly = all(c.is_poly for c in curves)
    return leaves, sets, curves, poly


def is_exact(curves):
    """All coordinates rational with small denominators (no float conversions)."""
    for c in curves:
        for s in c.segs:
            for x, y in s:
                if x.denominator > 10**12 or y.denominator > 10**12:
                    return False
    return True


def expr_is_rational(e):
    """True iff every leaf of the expression stores int/Fraction coordinates."""
    for l in al.expr_leaves(e):
        if l[0] in ("L", "WL"):
            d = al.leaf_data(l[1])
            if d[0] != "verts":
                return False
            pts = d[1]
        elif l[0] == "V":
            pts = [(al.parse_num(x), al.parse_num(y)) for x, y in l[1]]
        elif l[0] == "PC":
            v = l[2] if len(l) > 2 else "int"
            if v not in ("int", "frac", "half"):
                return False
            continue
        elif l[0] == "MV":
            if not expr_is_rational(l[1]) or isinstance(al.parse_num(l[2]), float) or isinstance(al.parse_num(l[3]), float):
                return False
            continue
        for x, y in pts:
            if isinstance(x, float) or isinstance(y, float):
                return False
    return True


def boundary_on_leaves(R, curves, exact, size):
    """(ii) every boundary segment of the result lies on the boundary of a leaf."""
    fails = []
    tol = None if exact else size / 10**8
    for j in rg.all_jordans(R):
        c = rg.jordan_curve(j)
        if not c.is_poly:
            fails.append("result has a curved segment although all leaves are polygons")
            continue
        for s in c.segs:
            a, b = s
            if exact:
                if not rg.edge_on_edges(a, b, curves):
                    fails.append(
                        "result edge %s-%s is not part of any operand edge" % (fmt_pt(a), fmt_pt(b))
                    )
            else:
                m = ((a[0] + b[0]) / 2, (a[1] + b[1]) / 2)
                for q in (a, m, b):
                    if not any(cv.near(q, tol) for cv in curves):
                        fails.append("result boundary point %s is off every operand boundary" % fmt_pt(q))
                        break
    return fails[:3]


def fmt_pt(p):
    def f(v):
        v = rg.ex(v)
        if v.denominator == 1:
            return str(v.numerator)
        if v.denominator < 10**6:
            return "%d/%d" % (v.numerator, v.denominator)
        return repr(float(v))

    return "(%s, %s)" % (f(p[0]), f(p[1]))


def lib_contains(shape, p):
    """The library's own `p in shape` for a reference point (floats are passed for float
    data, Fractions for rational data)."""
    return p in shape


def membership_check(e, R, curves, exact, size, use_lib_in=True, stats=None):
    """(iii) for every face witness of the arrangement of the leaves' supporting lines the
    reference membership of the result equals the boolean combination of the reference
    memberships of the leaves; the library's own `in` agrees."""
    fails = []
    model = al.model_eval(e)
    Rm = rg.interpret(R)
    wits = rg.witnesses_for(curves)
    clearance = None if exact else size / 10**4
    njudged = 0
    counts = {"IN": 0, "OUT": 0}
    for w in wits:
        if clearance is not None and any(c.near(w, clearance) for c in curves):
            if stats is not None:
                stats["witness_skipped_clearance"] = stats.get("witness_skipped_clearance", 0) + 1
            continue
        exp = model.contains(w)
        if exp == rg.ON:
            continue
        got = Rm.contains(w)
        njudged += 1
        counts[exp] += 1
        if got != exp:
            fails.append("point %s should be %s the result but is %s (reference reading of the returned shape)" % (fmt_pt(w), exp, got))
            if len(fails) >= 3:
                break
            continue
        if use_lib_in:
            q = w if exact else (float(w[0]), float(w[1]))
            st, val = call_limited(lambda: lib_contains(R, q), 30)
            if st != "ok":
                fails.append("`%s in result` %s" % (fmt_pt(w), "hangs" if st == "timeout" else "raises " + exc_str(val)))
            elif bool(val) != (exp == rg.IN):
                fails.append("`%s in result` is %r, the point is %s" % (fmt_pt(w), val, exp))
            if len(fails) >= 3:
                break
    if stats is not None:
        stats["witnesses"] = stats.get("witnesses", 0) + njudged
        stats["wit_in"] = stats.get("wit_in", 0) + counts["IN"]
        stats["wit_out"] = stats.get("wit_out", 0) + counts["OUT"]
    return fails


# --------------------------------------------------------------------------- measures
MOMENTS = [(0, 0), (1, 0), (0, 1), (2, 0), (1, 1), (0, 2)]


def lib_moment(shape, a, b):
    from . import lib

    k = rg.kind_of(shape)
    if k in ("EmptyShape", "WholeShape"):
        return 0
    return lib.IntegrateShape.polynomial(shape, a, b)


def ref_moment(shape, a, b):
    k = rg.kind_of(shape)
    if k in ("EmptyShape", "WholeShape"):
        return F(0)
    return rg.interpret(shape).boundary_moment(a, b)


def close(x, y, scale, rel):
    return abs(rg.ex(x) - rg.ex(y)) <= rel * scale


# --------------------------------------------------------------------------- well-formedness
def curve_self_intersections(c):
    """For polygonal curves: exact simplicity.  Curved: pairwise crossings of
    non-adjacent pieces by box subdivision."""
    n = len(c.segs)
    if c.is_poly:
        msg = rg.polygon_self_crossing(c.poly)
        return [] if msg is None else [msg]
    out = []
    for i in range(n):
        for j in range(i + 2, n):
            if i == 0 and j == n - 1:
                continue
            xs = rg.bez_bez_crossings(c.segs[i], c.segs[j], tol=F(1, 10**8))
            if xs:
                out.append("segments %d and %d of a boundary cross" % (i, j))
    return out


def wellformed(R, size=None):
    """Structural validator of C06 on one returned shape."""
    from . import lib

    fails = []
    k = rg.kind_of(R)
    if k in ("EmptyShape", "WholeShape"):
        if k == "EmptyShape" and R is not lib.EmptyShape():
            fails.append("EmptyShape result is not the singleton")
        if k == "WholeShape" and R is not lib.WholeShape():
            fails.append("WholeShape result is not the singleton")
        return fails
    if k not in ("SimpleShape", "ConnectedShape", "DisjointShape"):
        return ["result is a %s, not a shape" % k]
    if size is None:
        size = rg.shape_size(R)
    minlen2 = (size / 10**9) ** 2

    def check_curve(j, where):
        c = rg.jordan_curve(j)
        n = len(c.segs)
        for i in range(n):
            if c.segs[i][-1] != c.segs[(i + 1) % n][0]:
                fails.append("%s: segment %d does not end where segment %d starts" % (where, i, (i + 1) % n))
        for i, s in enumerate(c.segs):
            d2 = max((p[0] - s[0][0]) ** 2 + (p[1] - s[0][1]) ** 2 for p in s[1:])
            if d2 <= minlen2:
                fails.append("%s: zero-length segment %d at %s" % (where, i, fmt_pt(s[0])))
        # a single closed cubic (teardrop) and a two-arc lens are legitimate boundaries
        if n < 1 or (n == 1 and len(c.segs[0]) < 4) or (c.is_poly and n < 3) or (n == 2 and all(len(sg) == 2 for sg in c.segs)):
            fails.append("%s: boundary with %d segments" % (where, n))
            return c
        fails.extend("%s: %s" % (where, m) for m in curve_self_intersections(c))
        if c.area() == 0:
            fails.append("%s: boundary encloses zero area" % where)
        return c

    def simple_region(s, where):
        if rg.kind_of(s) != "SimpleShape":
            fails.append("%s is a %s, expected SimpleShape" % (where, rg.kind_of(s)))
            return None
        if len(s.jordans) != 1:
            fails.append("%s has %d boundaries" % (where, len(s.jordans)))
        return check_curve(s.jordans[0], where)

    def connected(cs, where):
        subs = cs.subshapes
        if len(subs) < 2:
            fails.append("%s: ConnectedShape with %d subshapes" % (where, len(subs)))
        curves = [simple_region(s, "%s.sub%d" % (where, i)) for i, s in enumerate(subs)]
        if any(c is None for c in curves) or fails:
            return curves
        pos = [c for c in curves if c.area() > 0]
        neg = [c for c in curves if c.area() < 0]
        if len(pos) > 1:
            fails.append("%s: %d counter-clockwise boundaries in one ConnectedShape" % (where, len(pos)))
        areas = [c.area() for c in curves]
        if any(areas[i] < areas[i + 1] for i in range(len(areas) - 1)):
            fails.append("%s: subshapes not sorted by decreasing area" % where)
        # every hole inside the (closed) outer region, holes pairwise outside each other's
        # interior; isolated contact points are tolerated (A ^ B of crossing shapes
        # cannot be represented without them), so segment mid-points are tested
        for i, h in enumerate(neg):
            mids = [rg.bez_eval(sg, F(1, 2)) for sg in h.segs]
            if pos and any(pos[0].winding(m) == 0 for m in mids):
                fails.append("%s: a hole boundary runs outside the outer boundary" % where)
            for j, g in enumerate(neg):
                if i == j:
                    continue
                if any(g.winding(m) == -1 for m in mids):
                    fails.append("%s: hole %d runs inside hole %d" % (where, i, j))
        return curves

    if k == "SimpleShape":
        simple_region(R, "result")
    elif k == "ConnectedShape":
        connected(R, "result")
    else:
        subs = R.subshapes
        if len(subs) < 2:
            fails.append("DisjointShape with %d components" % len(subs))
        comps = []
        for i, s in enumerate(subs):
            ks = rg.kind_of(s)
            if ks == "SimpleShape":
                comps.append([simple_region(s, "component %d" % i)])
            elif ks == "ConnectedShape":
                comps.append(connected(s, "component %d" % i))
            else:
                fails.append("component %d is a %s" % (i, ks))
        if not fails:
            # components pairwise disjoint: a vertex of one is not strictly inside another
            regs = [rg.interpret(s) for s in subs]
            for i, ci in enumerate(comps):
                for j, rj in enumerate(regs):
                    if i == j:
                        continue
                    for c in ci:
                        for s in c.segs:
                            m = rg.bez_eval(s, F(1, 2))
                            if rj.contains(m) == rg.IN:
                                fails.append("components %d and %d overlap at %s" % (i, j, fmt_pt(m)))
                                break
                        else:
                            continue
                        break
            # boundaries of different components do not cross transversally
    return fails[:4]


def expected_kind_of_complement(kind, ncomp=None):
    return {"SimpleShape": ("SimpleShape",), "ConnectedShape": ("DisjointShape",), "DisjointShape": ("ConnectedShape", "DisjointShape"), "EmptyShape": ("WholeShape",), "WholeShape": ("EmptyShape",)}[kind]
