"""Prints the full representation signatures of a fixed program list as JSON lines.
Run as a fresh process by the configuration axes of C13 (interpreter version) and C10
(hash seed, warm/cold caches):  python -m mc.dump_programs <list name>"""
import json
import sys

from . import alphabets as al
from . import progs
from . import refgeo as rg
from .runner import jsonable


def program_list(name):
    L = progs.L
    out = []
    if name == "rational":
        for v in ("int", "frac", "q7", "q1001", "q100003"):
            x, y, z = L("P.sqA#" + v), L("P.triA#" + v), L("P.bar#" + v)
            for o in progs.OPS4:
                out.append([o, x, y])
                out.append([o, y, z])
            out.append(["|", ["&", x, y], z])
            out.append(["-", ["^", x, z], y])
            out.append(["~", ["-", x, y]])
        out += [["|", ["PC", "hollow", "frac"], L("P.dia#frac")], ["&", ["PC", "xtwo", "int"], L("P.sqA#int")]]
    elif name == "general":
        out = program_list("rational")
        for v in ("float", "mixed"):
            x, y, z = L("P.sqA#" + v), L("P.triA#" + v), L("P.sqB#" + v)
            for o in ("|", "&", "-"):
                out.append([o, x, y])
                out.append([o, y, z])
        for a, b in (("c16", "c8"), ("c4", "fsq"), ("lens", "ftri"), ("c8", "fbar"), ("blob", "fsq")):
            for o in ("|", "&", "-"):
                out.append([o, L("Q." + a), L("Q." + b)])
        # the factories themselves, with default and non-default parameters (each twice in the list)
        for _ in (0, 1):
            for n in (3, 5, 6):
                out.append(["FACT", "regular_polygon", {"nsides": n}])
                out.append(["FACT", "regular_polygon", {"nsides": n, "center": [3, -1]}])
                out.append(["FACT", "regular_polygon", {"nsides": n, "radius": 2, "center": [0.5, 0.25]}])
            out.append(["FACT", "circle", {"ndivangle": 5, "center": [2, 1]}])
            out.append(["FACT", "circle", {"radius": 3, "ndivangle": 7}])
            out.append(["FACT", "square", {"side": 2, "center": [1, 1]}])
            out.append(["FACT", "square", {}])
            out.append(["FACT", "triangle", {"side": 3, "center": [-1, 2]}])
    return out


def evaluate(e):
    from . import lib

    if e[0] == "FACT":
        kw = {k: (tuple(v) if isinstance(v, list) else v) for k, v in e[2].items()}
        return getattr(lib.Primitive, e[1])(**kw)
    return al.lib_eval(e)


def name_of(e):
    if e[0] == "FACT":
        return "Primitive.%s(%s)" % (e[1], ", ".join("%s=%s" % kv for kv in sorted(e[2].items())))
    return al.expr_id(e)


def observe(e, with_float=True):
    from . import lib

    try:
        R = evaluate(e)
    except Exception as exc:  # noqa: BLE001
        return {"expr": name_of(e), "raises": type(exc).__name__}
    obs = {"expr": name_of(e), "sig": rg.rep_sig(R, with_cache=False)}
    if rg.kind_of(R) not in ("EmptyShape", "WholeShape"):
        ms = []
        for a, b in ((0, 0), (1, 0), (1, 1)):
            m = lib.IntegrateShape.polynomial(R, a, b)
            ms.append([rg.typecode(m) if rg.typecode(m) in ("i", "F", "f") else "float-like", rg.numrepr(m)])
        obs["moments"] = ms
        if with_float:
            # float(S) adds floats with sum(), whose rounding legitimately differs between
            # Python 3.11 and 3.12 (compensated summation): left out of the interpreter axis
            obs["float"] = float(R).hex()
    return obs


def api_tour():
    """Asks every kind of public question on objects that have nothing to do with the
    programs: whatever the module remembers of it must not change later answers."""
    from fractions import Fraction as F

    from . import lib

    for p in range(1, 5):
        for ctrl in ([(F(k), F(k * k % 3)) for k in range(p + 1)], [(0.5 * k, 0.25 * ((k * 3) % 4)) for k in range(p + 1)]):
            seg = lib.PlanarCurve(ctrl)
            for k in range(p + 2, 0, -1):  # highest order first
                seg.derivate(k)
            seg(F(1, 3)), seg(0.25), seg.eval((F(1, 4), F(3, 4)))
            seg.split((F(1, 3), F(2, 3)))
            seg.box()
            (0.1, 0.2) in seg
            lib.IntegratePlanar.winding_number(seg, center=(10.0, 10.0))
            lib.IntegratePlanar.vertical(seg, 2, 1)
            lib.IntegratePlanar.vertical(seg, 0, 0, 9)
            lib.IntegratePlanar.area(seg)
            seg.invert()
            seg.derivate(2)
    for n in (3, 5, 6, 8):
        lib.Primitive.regular_polygon(n)
        lib.Primitive.regular_polygon(n, center=(7, 4))
        lib.Primitive.regular_polygon(n, radius=F(3, 2), center=(F(1, 2), -2))
        lib.Primitive.circle(radius=2, center=(1, 1), ndivangle=n + 1)
        lib.Primitive.circle(center=(-3, 2), ndivangle=n + 2)
    lib.Primitive.square(3, (1, 2))
    lib.Primitive.triangle(2)
    a, b = lib.Primitive.circle(ndivangle=5), lib.Primitive.square(1.5, (0.5, 0.25))
    a | b, a & b, a - b, a ^ b, ~a, a == b, b in a, float(a), a.box()
    (0.3, 0.1) in a
    a.jordans[0].intersection(b.jordans[0], equal_beziers=False, end_points=False)
    a.move(3, 4).scale(2, 2).rotate(0.5)
    a.jordans[0].split([0], [F(1, 2)])
    a.jordans[0].clean()


if __name__ == "__main__":
    name = sys.argv[1]
    warm = len(sys.argv) > 2 and sys.argv[2] == "warm"
    progs_ = program_list(name)
    if warm:  # an unrelated tour of the public API, then everything once, so that module-level memo tables are filled
        api_tour()
        for e in progs_:
            observe(e)
    for e in progs_:
        print(json.dumps(jsonable(observe(e, with_float=(name != "rational"))), sort_keys=True))
