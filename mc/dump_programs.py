"""Prints the full representation signatures of a fixed program list as JSON lines.
Run as a fresh process by the configuration axes of C13 (interpreter version) and C10
(hash seed, warm/cold caches):  python -m mc.dump_programs <list name>"""
import json
import sys

from . import alphabets as al
from . import progs
from . import refgeo as rg
from .runner import jsonable


def program_list(name):
    L = progs.L
    out = []
    if name == "rational":
        for v in ("int", "frac", "q7", "q1001", "q100003"):
            x, y, z = L("P.sqA#" + v), L("P.triA#" + v), L("P.bar#" + v)
            for o in progs.OPS4:
                out.append([o, x, y])
                out.append([o, y, z])
            out.append(["|", ["&", x, y], z])
            out.append(["-", ["^", x, z], y])
            out.append(["~", ["-", x, y]])
        out += [["|", ["PC", "hollow", "frac"], L("P.dia#frac")], ["&", ["PC", "xtwo", "int"], L("P.sqA#int")]]
    elif name == "general":
        out = program_list("rational")
        for v in ("float", "mixed"):
            x, y, z = L("P.sqA#" + v), L("P.triA#" + v), L("P.sqB#" + v)
            for o in ("|", "&", "-"):
                out.append([o, x, y])
                out.append([o, y, z])
        for a, b in (("c16", "c8"), ("c4", "fsq"), ("lens", "ftri"), ("c8", "fbar")):
            for o in ("|", "&", "-"):
                out.append([o, L("Q." + a), L("Q." + b)])
    return out


def observe(e, with_float=True):
    from . import lib

    try:
        R = al.lib_eval(e)
    except Exception as exc:  # noqa: BLE001
        return {"expr": al.expr_id(e), "raises": type(exc).__name__}
    obs = {"expr": al.expr_id(e), "sig": rg.rep_sig(R, with_cache=False)}
    if rg.kind_of(R) not in ("EmptyShape", "WholeShape"):
        ms = []
        for a, b in ((0, 0), (1, 0), (1, 1)):
            m = lib.IntegrateShape.polynomial(R, a, b)
            ms.append([rg.typecode(m) if rg.typecode(m) in ("i", "F", "f") else "float-like", rg.numrepr(m)])
        obs["moments"] = ms
        if with_float:
            # float(S) adds floats with sum(), whose rounding legitimately differs between
            # Python 3.11 and 3.12 (compensated summation): left out of the interpreter axis
            obs["float"] = float(R).hex()
    return obs


if __name__ == "__main__":
    name = sys.argv[1]
    warm = len(sys.argv) > 2 and sys.argv[2] == "warm"
    progs_ = program_list(name)
    if warm:  # run everything once first so that module-level memo tables are filled
        for e in progs_:
            observe(e)
    for e in progs_:
        print(json.dumps(jsonable(observe(e, with_float=(name != "rational"))), sort_keys=True))
